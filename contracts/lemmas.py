"""Lemmas over contracts (C05 round trips).  Each lemma is executed symbolically against the CONTRACTS of
the real functions it calls; its asserts are proof obligations."""
from pyvc.api import lemma
from spec.prims import assume, class_is, is_absent, is_json, json_roundtrip, member, same
from spec.jsonrpc import id_ok

from pjrpc.common.common import UNSET
from pjrpc.common.exceptions import JsonRpcError, JsonRpcErrorMeta
from pjrpc.common.v20 import Request, Response


def params_eq(p, q):
    """'has parameters' is the wire notion: empty / missing params are one class; otherwise q is p after
    JSON normalisation (tuples come back as lists)"""
    if not p:
        return not q
    return same(q, json_roundtrip(p))


@lemma(props=['C05'], types={'req': '=pjrpc.common.v20:Request'})
def lemma_request_roundtrip(req):
    # every request the library can construct and put on the wire
    assume(isinstance(req._method, str) and id_ok(req._id))
    assume(req._params is None or isinstance(req._params, (list, tuple, dict)))
    wire = req.to_json()
    text_image = json_roundtrip(wire)            # json.dumps -> text -> json.loads  (assumed = norm)
    back = Request.from_json(text_image)         # must not raise
    assert same(back._method, req._method)
    assert same(back._id, req._id)
    assert params_eq(req._params, back._params)
    again = back.to_json()
    # serialising again gives the identical wire form
    assert same(member(again, 'jsonrpc'), member(text_image, 'jsonrpc'))
    assert same(member(again, 'method'), member(text_image, 'method'))
    assert same(member(again, 'id'), member(text_image, 'id'))
    assert same(member(again, 'params'), member(text_image, 'params'))
    assert len(again) == len(text_image)


@lemma(props=['C05'], types={'resp': '=pjrpc.common.v20:Response', 'error_cls': 'type<=pjrpc.common.exceptions:JsonRpcError'})
def lemma_response_roundtrip(resp, error_cls):
    assume(id_ok(resp._id))
    assume((resp._result is UNSET) != (resp._error is UNSET))
    assume(resp._error is UNSET or (isinstance(resp._error, JsonRpcError)
                                    and isinstance(resp._error.code, int) and not isinstance(resp._error.code, bool)
                                    and isinstance(resp._error.message, str)))
    wire = resp.to_json()
    text_image = json_roundtrip(wire)
    back = Response.from_json(text_image, error_cls)        # must not raise
    assert same(back._id, resp._id)
    if resp._error is UNSET:
        assert back._error is UNSET
        # a null result is distinct from a missing one
        assert back._result is not UNSET
        assert same(back._result, json_roundtrip(resp._result))
    else:
        assert back._result is UNSET
        assert same(back._error.code, resp._error.code)
        assert same(back._error.message, resp._error.message)
        if resp._error.data is UNSET:
            assert back._error.data is UNSET            # absent data stays absent
        else:
            assert same(back._error.data, json_roundtrip(resp._error.data))     # null data stays null
        # typed except clauses work: the class registered for the code, else the supplied base class
        assert class_is(back._error, JsonRpcErrorMeta.__errors_mapping__.get(resp._error.code, error_cls))



from spec.prims import closure_func, closure_var, method_value


@lemma(props=['C19', 'C09', 'C07'])
def lemma_send_stack_order():
    """C19 (every send ATTEMPT is traced) / C09: the client's _send is retried(traced(raw _send)) - the retry loop is the
    OUTER layer, so each attempt runs through the tracing layer.  The decorator expressions of the real class bodies
    are evaluated; the layers themselves are under contract (RetriedWrapper, TracedWrapper, RawSendSingle).  This pins
    the composition the assumed SendStack contract describes."""
    # (the names of the inner wrapper functions are irrelevant: only WHICH decorator produced each layer is pinned)
    s = method_value('pjrpc.client.client:AbstractClient._send')
    assert closure_func(s).startswith('pjrpc.client.client:AbstractClient.retried.<locals>.')
    t = closure_var(s, 'method')
    assert closure_func(t).startswith('pjrpc.client.client:AbstractClient.traced.<locals>.')
    assert closure_func(closure_var(t, 'method')) == 'pjrpc.client.client:AbstractClient._send'
    a = method_value('pjrpc.client.client:AbstractAsyncClient._send')
    assert closure_func(a).startswith('pjrpc.client.client:AbstractAsyncClient.retried.<locals>.')
    u = closure_var(a, 'method')
    assert closure_func(u).startswith('pjrpc.client.client:AbstractAsyncClient.traced.<locals>.')
    assert closure_func(closure_var(u, 'method')) == 'pjrpc.client.client:AbstractAsyncClient._send'
