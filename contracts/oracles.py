"""Assumed behaviour of abstract user callables (A-user) by kind; see pyvc/verify.py oracle_hook."""
ORACLES = {
    # a registered RPC method after binding (the functools.partial built by Method.bind)
    'UserMethod': {'returns': 'encodable', 'raises': ('Exception',), 'raised_invariant': 'spec.user:raised_ok'},
    # middlewares, error handlers, tracers: "do not raise" is the user contract stated in C01 / C12 / C19
    'UserMiddleware': {'returns': 'any', 'raises': ()},
    'UserErrorHandler': {'returns': 'pjrpc.common.exceptions:JsonRpcError', 'raises': (),
                         'returned_invariant': 'spec.user:error_ok'},
    'UserJitter': {'returns': 'number', 'raises': ()},
    'UserCallback': {'returns': 'any', 'raises': ('Exception',)},
    'UserExcludeFn': {'returns': 'any', 'raises': ()},
}

# class invariants assumed on objects that exist when the analysed call starts (established by the
# constructors / registration functions, which are verified to preserve them where under contract)
FIELD_TYPES = {
    ('pjrpc.server.dispatcher:MethodRegistry', '_registry'): 'dict[pjrpc.server.dispatcher:Method]',
    ('pjrpc.server.dispatcher:BaseDispatcher', '_registry'): '=pjrpc.server.dispatcher:MethodRegistry',
    ('pjrpc.server.dispatcher:BaseDispatcher', '_error_handlers'): 'dict[list[=UserErrorHandler]]',
}
