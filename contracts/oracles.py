"""Assumed behaviour of abstract user callables (A-user) by kind; see pyvc/verify.py oracle_hook."""
ORACLES = {
    # a registered RPC method after binding (the functools.partial built by Method.bind)
    'UserMethod': {'returns': 'encodable', 'raises': ('Exception',), 'raised_invariant': 'spec.user:raised_ok'},
    # middlewares, error handlers, tracers: "do not raise" is the user contract stated in C01 / C12 / C19
    # A-user (C01): a middleware returns what the chain returns: nothing (UNSET) or a response object
    'UserMiddleware': {'returns': '=pjrpc.common.v20:Response|=pjrpc.common.common:UnsetType', 'raises': (),
                       'returned_invariant': 'spec.user:handler_result_ok'},
    'UserErrorHandler': {'returns': 'pjrpc.common.exceptions:JsonRpcError', 'raises': (),
                         'returned_invariant': 'spec.user:error_ok'},
    # the (undecorated) send below the tracing / retrying wrappers: returns a response / None or raises anything,
    # including non-Exception BaseExceptions such as cancellation
    'UserTransport': {'returns': 'opt:=pjrpc.common.v20:Response|=pjrpc.common.v20:BatchResponse',
                      'raises': ('Exception', 'UserBaseException')},
    'UserValidator': {'returns': 'none', 'raises': ('pjrpc.common.exceptions:IdentityError',)},
    'UserIdGen': {'returns': '=UserIdIter', 'raises': ()},
    'UserStatusFn': {'returns': 'int', 'raises': ()},
    # a mock records the call and returns something (ignored by the mocker)
    'UserMock': {'returns': 'any', 'raises': ()},
    # a patch callback of the pytest mocker: computes the result value (a JSON-encodable value) or raises
    'UserMockCallback': {'returns': 'encodable', 'raises': ('Exception',)},
    # a response object is a WSGI application: calling it sends it
    'ExtHttpResponse': {'returns': 'any', 'raises': ()},
    'UserJitter': {'returns': 'number', 'raises': ()},
    'UserCallback': {'returns': 'any', 'raises': ('Exception',)},
    'UserExcludeFn': {'returns': 'any', 'raises': ()},
}

# class invariants assumed on objects that exist when the analysed call starts (established by the
# constructors / registration functions, which are verified to preserve them where under contract)
FIELD_TYPES = {
    ('pjrpc.server.dispatcher:MethodRegistry', '_registry'): 'dict[pjrpc.server.dispatcher:Method]@registry',
    ('pjrpc.server.dispatcher:BaseDispatcher', '_registry'): '=pjrpc.server.dispatcher:MethodRegistry',
    ('pjrpc.server.dispatcher:BaseDispatcher', '_error_handlers'): 'dict[list[=UserErrorHandler]]',
    ('pjrpc.client.client:BaseAbstractClient', '_tracers'): 'list[=UserTracer]',
    ('pjrpc.common.v20:Response', '_error'): 'pjrpc.common.exceptions:JsonRpcError|=pjrpc.common.common:UnsetType',
    ('pjrpc.common.v20:BatchResponse', '_error'): 'pjrpc.common.exceptions:JsonRpcError|=pjrpc.common.common:UnsetType',
    ('pjrpc.common.v20:BatchResponse', '_ids'): '=set',
    ('pjrpc.common.v20:BatchRequest', '_ids'): '=set',
    ('pjrpc.common.v20:BatchResponse', '_strict'): 'bool',
    ('pjrpc.common.v20:BatchRequest', '_strict'): 'bool',
    ('pjrpc.common.v20:BatchResponse', '_responses'): 'list[=pjrpc.common.v20:Response]',
    ('pjrpc.common.v20:BatchRequest', '_requests'): 'list[=pjrpc.common.v20:Request]',
    ('pjrpc.server.dispatcher:AsyncDispatcher', '_concurrent_batch'): 'bool',
    ('pjrpc.client.client:BaseAbstractClient', 'id_gen_impl'): '=UserIdGen',
    ('pjrpc.server.specs.openapi:OpenAPI', '_schema_extractors'): 'list[=UserSchemaExtractor]',
    ('pjrpc.server.specs.openrpc:OpenRPC', '_schema_extractor'): '=UserSchemaExtractor',
    ('pjrpc.server.specs.openapi:OpenAPI', '_error_http_status_map'): '=dict',
    ('pjrpc.server.dispatcher:Method', 'method'): '=UserMethod',
    ('pjrpc.server.dispatcher:Method', 'name'): 'str',
    ('pjrpc.server.dispatcher:Method', 'context'): 'opt:str',
    ('pjrpc.server.dispatcher:Method', 'positional'): 'bool',
    ('builtins:UserMethod', '__pjrpc_meta__'): '=dict@meta',
    ('builtins:UserMethod', '__name__'): 'str',
    ('pjrpc.client.client:BaseBatch', '_client'): 'pjrpc.client.client:BaseAbstractClient',
    ('pjrpc.client.client:BaseBatch', '_requests'): '=pjrpc.common.v20:BatchRequest',
    ('pjrpc.client.client:BaseBatch', '_id_gen'): '=UserIdIter',
    ('pjrpc.client.integrations.pytest:PjRpcMocker', '_matches'): 'ddict[ddict[list[=pjrpc.client.integrations.pytest:Match]]]',
    ('pjrpc.client.integrations.pytest:PjRpcMocker', '_calls'): 'ddict[dict[=UserMock]]',
    ('pjrpc.client.integrations.pytest:PjRpcMocker', '_mocker'): '=UserMockModule',
    ('pjrpc.client.integrations.pytest:PjRpcMocker', '_patcher'): 'opt:=UserPatcher',
    ('pjrpc.client.integrations.pytest:PjRpcMocker', '_passthrough'): 'bool',
    ('pjrpc.client.integrations.pytest:PjRpcMocker', '_async_resp'): 'bool',
    ('builtins:UserClientObject', '_endpoint'): 'str',
    ('pjrpc.client.integrations.pytest:Match', 'once'): 'bool',
    ('pjrpc.client.integrations.pytest:Match', 'callback'): 'opt:=UserMockCallback',
    ('pjrpc.client.integrations.pytest:Match', 'response_data'): '=dict',
    ('builtins:ExtHttpRequest', 'mimetype'): 'str',
    ('builtins:ExtHttpRequest', 'content_type'): 'opt:str',
    ('builtins:ExtHttpRequest', 'is_json'): 'bool',
    ('pjrpc.server.integration.flask:JsonRPC', '_status_by_error'): '=UserStatusFn',
    ('pjrpc.server.integration.aiohttp:Application', '_status_by_error'): '=UserStatusFn',
    ('pjrpc.server.integration.werkzeug:JsonRPC', '_dispatcher'): 'pjrpc.server.dispatcher:Dispatcher',
    ('pjrpc.client.retry:RetryStrategy', 'backoff'): 'pjrpc.client.retry:Backoff',
    ('pjrpc.client.retry:RetryStrategy', 'codes'): 'opt:=set',
    ('pjrpc.client.retry:RetryStrategy', 'exceptions'): 'opt:=set',
}

# methods of abstract user objects (C19: tracers do not raise)
ORACLE_METHODS = {
    # the mocking package handed to the pytest mocker (unittest.mock / pytest-mock): MagicMock(...) gives a new mock
    'UserMockModule': {'MagicMock': {'returns': '=UserMock', 'raises': ()}},
    # the active patcher of the pytest mocker: temp_original is the real (un-patched) transport method
    'UserPatcher': {'temp_original': {'returns': 'any', 'raises': ('Exception',)}},
    # schema extractors are user-extensible: whatever class implements them, the per-method hooks return UNSET or a
    # list (of error classes) / a string and have no effect the library can observe (A-user)
    'UserSchemaExtractor': {'extract_errors': {'returns': 'any', 'raises': (), 'returned_invariant': 'spec.specs:errors_result_ok'},
                            'extract_summary': {'returns': 'any', 'raises': ()},
                            'extract_description': {'returns': 'any', 'raises': ()},
                            'extract_deprecation_status': {'returns': 'any', 'raises': ()}},
    # HTTP request objects of the web frameworks: reading the body as text returns a str or fails to decode
    'ExtHttpRequest': {'get_data': {'returns': 'str', 'raises': ('UnicodeDecodeError',)},
                       'text': {'returns': 'str', 'raises': ('UnicodeDecodeError',)}},
    # a response object is a WSGI application
    # ids produced by the configured id generator: strings or integers, never null (assumed for the built-in
    # generators sequential / randint / random; generators.uuid violates it - see known findings)
    'UserIdIter': {'__next__': {'returns': 'str|int', 'raises': ()}},
    # the transport implemented by a concrete client: returns the response text (or nothing) or raises
    'AbstractClient': {'_request': {'returns': 'opt:str', 'raises': ('Exception', 'UserBaseException')}},
    'AbstractAsyncClient': {'_request': {'returns': 'opt:str', 'raises': ('Exception', 'UserBaseException')}},
    'UserTracer': {
        'on_request_begin': {'returns': 'none', 'raises': ()},
        'on_request_end': {'returns': 'none', 'raises': ()},
        'on_error': {'returns': 'none', 'raises': ()},
    },
}

# assumed invariants of external (framework) classes, stated as spec functions of the object
CLASS_INVARIANTS = {
    'ExtHttpRequest': 'spec.http:request_wf',
}
