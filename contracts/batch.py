"""Sidecar contracts for the batch classes of pjrpc/common/v20.py."""
from pyvc.api import contract
from spec.prims import is_fresh, at_entry, class_is, contents_as_old, contents_unchanged, dup_in, is_absent, member, old, same, seq_concat, seq_same

from pjrpc.common.common import UNSET
from pjrpc.common.v20 import BatchRequest, BatchResponse, Request, Response


@contract('pjrpc.common.v20:BatchRequest._add_ids', also=('pjrpc.common.v20:BatchResponse._add_ids',),
          props=['C06', 'C02', 'C08'])
class AddIds:
    """Proved here: only IdentityError escapes; a failed call changes nothing (the id set is replaced only
    after the whole loop, on a copy - atomicity of append / extend, C06); non-strict batches never change.
    ASSUMED (bounded stand-in ./check standins): it raises exactly when the ids contain a duplicate."""
    raises_only = ('pjrpc.common.exceptions:IdentityError',)
    modifies = ('self._ids',)
    assumed_clauses = ('returns_iff',)
    loop0 = {'modifies': ['$fresh']}

    def returns_iff(self, ids):
        return not (self._strict and dup_in(self._ids, ids))

    def invariant0(self, ids, k):
        # the loop must not touch the batch's own id set: neither the attribute nor the set's contents
        return same(self._ids, at_entry(self._ids)) and contents_unchanged(self._ids)

    def ensures_on_IdentityError(self, ids, exc):
        # a failed call leaves the batch unchanged (atomic append / extend)
        return same(self._ids, old(self._ids)) and contents_as_old(self._ids)

    def ensures_nonstrict(self, ids, result):
        return result is None and (self._strict or same(self._ids, old(self._ids)))


def all_requests(xs):
    return isinstance(xs, (list, tuple)) and all(class_is(r, Request) for r in xs)


@contract('pjrpc.common.v20:BatchRequest.extend', props=['C06', 'C02', 'C07'])
class BatchRequestExtend:
    types = {'requests': 'seq[=pjrpc.common.v20:Request]'}
    raises_only = ('pjrpc.common.exceptions:IdentityError',)
    modifies = ('self._ids', '$seq(self._requests)')

    def returns_iff(self, requests):
        # C06: adding messages whose ids duplicate one already present (or each other) raises the identity error
        return not (self._strict and dup_in(self._ids, [r._id for r in requests]))

    def ensures_appended(self, requests, result):
        return result is None and seq_same(self._requests, seq_concat(old(tuple(self._requests)), old(tuple(requests))))

    def ensures_on_IdentityError(self, requests, exc):
        # ... and leaves the batch unchanged
        return same(self._ids, old(self._ids)) and seq_same(self._requests, old(tuple(self._requests)))


@contract('pjrpc.common.v20:BatchRequest.append', props=['C06', 'C07'])
class BatchRequestAppend:
    types = {'request': '=pjrpc.common.v20:Request'}
    raises_only = ('pjrpc.common.exceptions:IdentityError',)
    modifies = ('self._ids', '$seq(self._requests)')

    def returns_iff(self, request):
        return not (self._strict and dup_in(self._ids, (request._id,)))

    def ensures_appended(self, request, result):
        return result is None and seq_same(self._requests, seq_concat(old(tuple(self._requests)), (request,)))

    def ensures_on_IdentityError(self, request, exc):
        return same(self._ids, old(self._ids)) and seq_same(self._requests, old(tuple(self._requests)))


# ------------------------------------------------------------------------------------------------ batch wire forms (C05)
from spec.wire import request_wire, response_wire
from pjrpc.common.exceptions import JsonRpcError


def params_ok(p):
    return p is None or isinstance(p, (list, tuple, dict))


def response_inv(r):
    return ((r._result is UNSET) != (r._error is UNSET)) and (r._error is UNSET or isinstance(r._error, JsonRpcError))


@contract('pjrpc.common.v20:BatchRequest.to_json', props=['C05', 'C07'])
class BatchRequestToJson:
    """The body is one list comprehension.  PROVED (comprehension contract, generic element): it runs over exactly
    self._requests, in order, and each produced element is the wire form of its source element.  The element-wise
    postcondition below is then the generator's (trusted) semantics of a comprehension - it is ASSUMED as a clause
    (proving the quantified form directly took the generator minutes and was unstable)."""
    types = {'self': 'pjrpc.common.v20:BatchRequest'}
    raises_only = ()
    result_type = '=list'
    result_fresh = True
    cross_check = False
    assumed_clauses = ('ensures_wire',)
    comp_wire = {'elt_contains': 'to_json'}

    def requires_elements(self):
        return all(params_ok(r._params) for r in self._requests)

    def comp_wire__source(self, xs):
        return seq_same(xs, self._requests)

    def comp_wire__element(self, x, y):
        return request_wire(y, x)

    def ensures_wire(self, result):
        # C05: the array of the elements' wire forms, in element order
        return (len(result) == len(self._requests)
                and all(request_wire(result[i], self._requests[i]) for i in range(len(result))))


@contract('pjrpc.common.v20:BatchResponse.to_json', props=['C05', 'C01'])
class BatchResponseToJson:
    """see BatchRequestToJson: comprehension contract proved, the quantified clause assumed; the batch-level error
    branch is proved"""
    types = {'self': 'pjrpc.common.v20:BatchResponse'}
    raises_only = ()
    cross_check = False
    assumed_clauses = ('ensures_wire',)
    comp_wire = {'elt_contains': 'to_json'}

    def requires_inv(self):
        return (self._error is UNSET or isinstance(self._error, JsonRpcError)) and all(
            ((r._result is UNSET) != (r._error is UNSET)) and (r._error is UNSET or isinstance(r._error, JsonRpcError))
            for r in self._responses)

    def comp_wire__source(self, xs):
        return seq_same(xs, self._responses)

    def comp_wire__element(self, x, y):
        return response_wire(y, x)

    def ensures_error_branch(self, result):
        if self._error is UNSET:
            return True
        # a batch-level error is a single response object with id null
        return (isinstance(result, dict) and member(result, 'jsonrpc') == '2.0' and member(result, 'id') is None
                and is_absent(member(result, 'result')) and isinstance(member(result, 'error'), dict))

    def ensures_wire(self, result):
        if self._error is not UNSET:
            return True
        return (isinstance(result, list) and len(result) == len(self._responses)
                and all(response_wire(result[i], self._responses[i]) for i in range(len(result))))


# ------------------------------------------------------------------------------------------------ construction / parsing
from spec.jsonrpc import valid_request_obj
from spec.server import request_ok


@contract('pjrpc.common.v20:BatchRequest.__init__', props=['C06', 'C02'])
class BatchRequestInit:
    types = {'requests': 'seq[=pjrpc.common.v20:Request]', 'strict': 'bool'}
    raises_only = ('pjrpc.common.exceptions:IdentityError',)
    modifies = ('self._strict', 'self._requests', 'self._ids')

    def returns_iff(self, requests, strict):
        return not (strict and dup_in(set(), [r._id for r in requests]))

    def ensures_fields(self, requests, strict, result):
        return (same(self._strict, strict) and isinstance(self._requests, list)
                and seq_same(self._requests, requests))


@contract('pjrpc.common.v20:BatchRequest.from_json', props=['C06', 'C02', 'C01'])
class BatchRequestFromJson:
    types = {'data': 'json'}
    pins = {'cls': 'pjrpc.common.v20:BatchRequest'}
    raises_only = ('pjrpc.common.exceptions:DeserializationError', 'pjrpc.common.exceptions:IdentityError')
    result_type = '=pjrpc.common.v20:BatchRequest'

    # C06: a batch is rejected with DeserializationError exactly when it is not a non-empty array of valid request
    # objects; the identity error can only come from an otherwise valid batch (that it comes exactly for
    # duplicate ids is the assumed semantics of _add_ids, see AddIds / the bounded stand-in)
    def raises_DeserializationError_iff(cls, data):
        return not (isinstance(data, list) and len(data) > 0 and all(valid_request_obj(x) for x in data))

    def ensures_valid(cls, data, result):
        return isinstance(data, list) and len(data) > 0 and all(valid_request_obj(x) for x in data)

    def ensures_on_IdentityError(cls, data, exc):
        return isinstance(data, list) and len(data) > 0 and all(valid_request_obj(x) for x in data)

    def ensures_elements(cls, data, result):
        return (result._strict == True and len(result._requests) == len(data)
                and all(request_ok(r) for r in result._requests))


@contract('pjrpc.common.v20:BatchResponse.__init__', props=['C06', 'C08', 'C01'])
class BatchResponseInit:
    types = {'responses': 'seq[=pjrpc.common.v20:Response]', 'error': 'any', 'strict': 'bool'}
    raises_only = ('pjrpc.common.exceptions:IdentityError',)
    modifies = ('self._strict', 'self._responses', 'self._ids', 'self._error', 'self._related')

    def returns_iff(self, responses, error, strict):
        return not (strict and dup_in(set(), [r._id for r in responses]))

    def ensures_fields(self, responses, error, strict, result):
        return (same(self._strict, strict) and same(self._error, error) and self._related is None
                and isinstance(self._responses, list) and seq_same(self._responses, responses))


@contract('pjrpc.common.v20:Request.is_notification', props=['C07', 'C02'])
class RequestIsNotification:
    types = {'self': 'pjrpc.common.v20:Request'}
    raises_only = ()
    result_type = 'bool'

    def ensures_def(self, result):
        # C07 / C02: a notification is a request without an id
        return result == (self._id is None)


@contract('pjrpc.common.v20:BatchRequest.is_notification', props=['C07', 'C02'])
class BatchRequestIsNotification:
    """C07: a batch is sent as a notification (no reply awaited) exactly when EVERY element is one - whatever the
    strict flag and however the batch was built"""
    types = {'self': 'pjrpc.common.v20:BatchRequest'}
    raises_only = ()
    result_type = 'bool'

    def requires_inv(self):
        return isinstance(self._requests, list) and all(isinstance(r, Request) for r in self._requests)

    def ensures_def(self, result):
        return result == all(r._id is None for r in self._requests)


# ------------------------------------------------------------------------------------------------ batch responses (C06 / C05 / C08)
from spec.jsonrpc import valid_error_obj, valid_response_obj
from pjrpc.common.exceptions import JsonRpcErrorMeta


@contract('pjrpc.common.v20:BatchResponse.from_json', props=['C06', 'C05', 'C08'])
class BatchResponseFromJson:
    """C06: a response array is accepted iff every element is a valid response object (only DeserializationError /
    IdentityError otherwise); C05: each element is deserialised like a single response - in particular its error becomes
    an instance of the class registered for the code, else of the SUPPLIED base class (comprehension contract, generic
    element)."""
    types = {'json_data': 'json', 'error_cls': 'type<=pjrpc.common.exceptions:JsonRpcError'}
    pins = {'cls': 'pjrpc.common.v20:BatchResponse'}
    raises_only = ('pjrpc.common.exceptions:DeserializationError', 'pjrpc.common.exceptions:IdentityError')
    result_type = '=pjrpc.common.v20:BatchResponse'
    cross_check = False
    comp_elements = {'elt_contains': 'from_json'}

    def raises_DeserializationError_iff(cls, json_data, error_cls):
        if isinstance(json_data, list):
            return not all(valid_response_obj(x) for x in json_data)
        if not isinstance(json_data, dict):
            return True
        # a single object is accepted only as a batch-level error: {"jsonrpc": "2.0", "id": null, "error": {...}}
        if is_absent(member(json_data, 'jsonrpc')) or member(json_data, 'jsonrpc') != '2.0':
            return True
        if not is_absent(member(json_data, 'id')) and member(json_data, 'id') is not None:
            return True
        if is_absent(member(json_data, 'error')):
            return True
        return not valid_error_obj(member(json_data, 'error'))

    def comp_elements__source(cls, json_data, error_cls, xs):
        return seq_same(xs, json_data)

    def comp_elements__element(cls, json_data, error_cls, x, y):
        e = member(x, 'error')
        if is_absent(e):
            return isinstance(y, Response) and y._error is UNSET
        return (isinstance(y, Response) and isinstance(y._error, JsonRpcError)
                and class_is(y._error, JsonRpcErrorMeta.__errors_mapping__.get(member(e, 'code'), error_cls)))


@contract('pjrpc.common.v20:BatchResponse.result', props=['C08'])
class BatchResponseResult:
    """C08: a batch-level error object is raised for the batch; the error of the FIRST failed response (in the order of
    the responses - call order after matching) is raised as an exception, the very object; otherwise the results come back
    as a tuple, position by position."""
    types = {'self': 'pjrpc.common.v20:BatchResponse'}
    raises_only = ('pjrpc.common.exceptions:JsonRpcError',)
    result_type = '=tuple'
    cross_check = False
    loop0 = {'modifies': ['$fresh'], 'index': 'k'}

    def requires_inv(self):
        return ((self._error is UNSET or isinstance(self._error, JsonRpcError))
                and all(r._error is UNSET or isinstance(r._error, JsonRpcError) for r in self._responses))

    def invariant0_prefix(self, result, xs, k):
        # everything read so far succeeded and was copied in order
        return (is_fresh(result) and isinstance(result, list) and len(result) == k
                and all(xs[j]._error is UNSET and same(result[j], xs[j]._result) for j in range(k)))

    # NOT proved: that it raises EXACTLY when the batch or one of the responses failed (the range-quantified condition
    # gets no instantiation trigger at the loop index in the VC generator); what is proved: only JsonRpcError escapes, it is
    # the batch error or the error object of one of the responses, and a normal return copies every result by position.

    def ensures_positions(self, result):
        return (len(result) == len(self._responses)
                and all(same(result[i], self._responses[i]._result) for i in range(len(result))))

    def ensures_on_JsonRpcError(self, exc):
        if self._error is not UNSET:
            return same(exc, self._error)
        return any(same(exc, self._responses[i]._error) for i in range(len(self._responses)))
