"""Sidecar contracts for the batch classes of pjrpc/common/v20.py."""
from pyvc.api import contract
from spec.prims import at_entry, class_is, dup_in, is_absent, member, old, same, seq_concat, seq_same

from pjrpc.common.common import UNSET
from pjrpc.common.v20 import BatchRequest, BatchResponse, Request, Response


@contract('pjrpc.common.v20:BatchRequest._add_ids', also=('pjrpc.common.v20:BatchResponse._add_ids',),
          props=['C06', 'C02', 'C08'])
class AddIds:
    """Proved here: only IdentityError escapes; a failed call changes nothing (the id set is replaced only
    after the whole loop, on a copy - atomicity of append / extend, C06); non-strict batches never change.
    ASSUMED (bounded stand-in ./check standins): it raises exactly when the ids contain a duplicate."""
    raises_only = ('pjrpc.common.exceptions:IdentityError',)
    modifies = ('self._ids',)
    assumed_clauses = ('returns_iff',)
    loop0 = {'modifies': ['$dict(new_ids)']}

    def returns_iff(self, ids):
        return not (self._strict and dup_in(self._ids, ids))

    def invariant0(self, ids, new_ids, k):
        # the loop works on a private copy: the batch's own id set (object and contents) is untouched
        return same(self._ids, at_entry(self._ids)) and not same(new_ids, self._ids)

    def ensures_on_IdentityError(self, ids, exc):
        return same(self._ids, old(self._ids))

    def ensures_nonstrict(self, ids, result):
        return result is None and (self._strict or same(self._ids, old(self._ids)))


def all_requests(xs):
    return isinstance(xs, (list, tuple)) and all(class_is(r, Request) for r in xs)


@contract('pjrpc.common.v20:BatchRequest.extend', props=['C06', 'C02', 'C07'])
class BatchRequestExtend:
    types = {'requests': 'seq[=pjrpc.common.v20:Request]'}
    raises_only = ('pjrpc.common.exceptions:IdentityError',)
    modifies = ('self._ids', '$seq(self._requests)')

    def returns_iff(self, requests):
        # C06: adding messages whose ids duplicate one already present (or each other) raises the identity error
        return not (self._strict and dup_in(self._ids, [r._id for r in requests]))

    def ensures_appended(self, requests, result):
        return result is None and seq_same(self._requests, seq_concat(old(tuple(self._requests)), old(tuple(requests))))

    def ensures_on_IdentityError(self, requests, exc):
        # ... and leaves the batch unchanged
        return same(self._ids, old(self._ids)) and seq_same(self._requests, old(tuple(self._requests)))


@contract('pjrpc.common.v20:BatchRequest.append', props=['C06', 'C07'])
class BatchRequestAppend:
    types = {'request': '=pjrpc.common.v20:Request'}
    raises_only = ('pjrpc.common.exceptions:IdentityError',)
    modifies = ('self._ids', '$seq(self._requests)')

    def returns_iff(self, request):
        return not (self._strict and dup_in(self._ids, (request._id,)))

    def ensures_appended(self, request, result):
        return result is None and seq_same(self._requests, seq_concat(old(tuple(self._requests)), (request,)))

    def ensures_on_IdentityError(self, request, exc):
        return same(self._ids, old(self._ids)) and seq_same(self._requests, old(tuple(self._requests)))
