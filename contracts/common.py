"""Sidecar contracts for pjrpc/common/common.py and the server JSON encoder."""
from pyvc.api import contract
from spec.prims import same
from spec.wire import error_wire, request_wire, response_wire

from pjrpc.common.common import UNSET
from pjrpc.common.exceptions import JsonRpcError
from pjrpc.common.v20 import BatchRequest, BatchResponse, Request, Response
from pjrpc.server.validators.base import ValidationError


def library_message(o):
    return isinstance(o, (Response, Request, BatchResponse, BatchRequest, JsonRpcError))


def response_inv(r):
    return ((r._result is UNSET) != (r._error is UNSET)) and (r._error is UNSET or isinstance(r._error, JsonRpcError))


def params_ok(p):
    return p is None or isinstance(p, (list, tuple, dict))


def one_kind(o):
    """A-classes: no user class derives from two of the library's message classes at once"""
    n = ((1 if isinstance(o, Request) else 0) + (1 if isinstance(o, Response) else 0)
         + (1 if isinstance(o, BatchRequest) else 0) + (1 if isinstance(o, BatchResponse) else 0)
         + (1 if isinstance(o, JsonRpcError) else 0))
    return n <= 1


def message_inv(o):
    return (one_kind(o) and (not isinstance(o, Request) or params_ok(o._params))
            and (not isinstance(o, Response) or response_inv(o))
            and (not isinstance(o, BatchRequest) or all(params_ok(r._params) for r in o._requests))
            and (not isinstance(o, BatchResponse) or (
                (o._error is UNSET or isinstance(o._error, JsonRpcError)) and all(response_inv(r) for r in o._responses))))


@contract('pjrpc.common.common:JSONEncoder.default', props=['C05', 'C07'])
class JSONEncoderDefault:
    """C05: encoding 'through the library JSON encoder' is encoding the wire form: requests, responses, batches
    and errors are replaced by their to_json(); anything else is not encodable (TypeError)."""
    types = {'o': 'any'}
    raises_only = ('TypeError',)

    def requires_inv(self, o):
        # class invariants of the messages (established by their constructors / from_json)
        return message_inv(o)

    def returns_iff(self, o):
        return library_message(o)

    def ensures_wire(self, o, result):
        # the replacement IS the message's wire form
        if isinstance(o, Request):
            return request_wire(result, o)
        if isinstance(o, Response):
            return response_wire(result, o)
        if isinstance(o, JsonRpcError):
            return error_wire(result, o)
        return True
