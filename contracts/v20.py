"""Sidecar contracts for pjrpc/common/v20.py (message model)."""
from pyvc.api import contract
from spec.prims import implies, is_absent, member, old, same, class_is
from spec.jsonrpc import id_ok, valid_error_obj, valid_request_obj, valid_response_obj

from pjrpc.common.common import UNSET
from pjrpc.common.v20 import Request, Response


@contract('pjrpc.common.v20:Request.from_json', props=['C06', 'C05', 'C01'])
class RequestFromJson:
    types = {'json_data': 'json'}
    pins = {'cls': 'pjrpc.common.v20:Request'}
    raises_only = ('pjrpc.common.exceptions:DeserializationError',)
    result_type = '=pjrpc.common.v20:Request'
    modifies = ()

    def returns_iff(cls, json_data):
        return valid_request_obj(json_data)

    def ensures_fields(cls, json_data, result):
        p = member(json_data, 'params')
        i = member(json_data, 'id')
        return (
            same(result._method, member(json_data, 'method'))
            and (same(result._id, i) if not is_absent(i) else result._id is None)
            and (same(result._params, p) if not is_absent(p) else (isinstance(result._params, list) and len(result._params) == 0))
        )
