"""Sidecar contracts for pjrpc/common/v20.py (message model)."""
from pyvc.api import contract
from spec.prims import implies, is_absent, member, old, same, class_is
from spec.jsonrpc import id_ok, valid_error_obj, valid_request_obj, valid_response_obj
from spec.wire import request_wire, response_wire

from pjrpc.common.common import UNSET
from pjrpc.common.v20 import Request, Response
from pjrpc.common.exceptions import JsonRpcError, JsonRpcErrorMeta


@contract('pjrpc.common.v20:Request.from_json', props=['C06', 'C05', 'C01'])
class RequestFromJson:
    types = {'json_data': 'json'}
    pins = {'cls': 'pjrpc.common.v20:Request'}
    raises_only = ('pjrpc.common.exceptions:DeserializationError',)
    result_type = '=pjrpc.common.v20:Request'
    modifies = ()

    def returns_iff(cls, json_data):
        return valid_request_obj(json_data)

    def ensures_fields(cls, json_data, result):
        p = member(json_data, 'params')
        i = member(json_data, 'id')
        return (
            same(result._method, member(json_data, 'method'))
            and (same(result._id, i) if not is_absent(i) else result._id is None)
            and (same(result._params, p) if not is_absent(p) else (isinstance(result._params, list) and class_is(result._params, list) and len(result._params) == 0))
        )


@contract('pjrpc.common.v20:Response.from_json', props=['C06', 'C05', 'C08'])
class ResponseFromJson:
    types = {'json_data': 'json', 'error_cls': 'type<=pjrpc.common.exceptions:JsonRpcError'}
    pins = {'cls': 'pjrpc.common.v20:Response'}
    raises_only = ('pjrpc.common.exceptions:DeserializationError',)
    result_type = '=pjrpc.common.v20:Response'

    def returns_iff(cls, json_data, error_cls):
        return valid_response_obj(json_data)

    def ensures_fields(cls, json_data, error_cls, result):
        i = member(json_data, 'id')
        r = member(json_data, 'result')
        e = member(json_data, 'error')
        return (
            (same(result._id, i) if not is_absent(i) else result._id is None)
            and (same(result._result, r) if not is_absent(r) else result._result is UNSET)
            and (result._error is UNSET) == is_absent(e)
            and result._related is None
        )

    def ensures_error(cls, json_data, error_cls, result):
        e = member(json_data, 'error')
        if is_absent(e):
            return True
        d = member(e, 'data')
        return (
            isinstance(result._error, JsonRpcError)
            and same(result._error.code, member(e, 'code'))
            and same(result._error.message, member(e, 'message'))
            and (same(result._error.data, d) if not is_absent(d) else result._error.data is UNSET)
            and class_is(result._error, JsonRpcErrorMeta.__errors_mapping__.get(member(e, 'code'), error_cls))
        )


# ------------------------------------------------------------------------------------------------ wire forms (C05)
def params_ok(p):
    """what a request can carry as params: nothing, an array (list / tuple) or an object"""
    return p is None or isinstance(p, (list, tuple, dict))


@contract('pjrpc.common.v20:Request.to_json', props=['C05', 'C07'])
class RequestToJson:
    types = {'self': 'pjrpc.common.v20:Request'}
    raises_only = ()
    result_type = '=dict'

    def requires_inv(self):
        return params_ok(self._params)

    def ensures_wire(self, result):
        # C05: jsonrpc always "2.0"; an id member iff not a notification; a params member iff it has parameters;
        # nothing else
        return request_wire(result, self)


@contract('pjrpc.common.exceptions:JsonRpcError.to_json', props=['C05', 'C03', 'C01'])
class JsonRpcErrorToJson:
    types = {'self': 'pjrpc.common.exceptions:JsonRpcError'}
    raises_only = ()
    result_type = '=dict'

    def ensures_wire(self, result):
        # C03 / C05: exactly code and message; data iff set (absent stays absent, null stays null)
        return (
            same(member(result, 'code'), self.code) and same(member(result, 'message'), self.message)
            and (same(member(result, 'data'), self.data) if self.data is not UNSET else is_absent(member(result, 'data')))
            and len(result) == 2 + (0 if self.data is UNSET else 1)
        )


@contract('pjrpc.common.v20:Response.to_json', props=['C05', 'C01'])
class ResponseToJson:
    types = {'self': 'pjrpc.common.v20:Response'}
    raises_only = ()
    result_type = '=dict'

    def requires_inv(self):
        # class invariant established by the constructor: exactly one of result / error
        return ((self._result is UNSET) != (self._error is UNSET)) and (
            self._error is UNSET or isinstance(self._error, JsonRpcError))

    def ensures_wire(self, result):
        return response_wire(result, self)
