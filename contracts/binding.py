"""C04: methods receive exactly the caller's arguments plus the server-side context.

`inspect.Signature.bind` is the SPECIFICATION of "what a direct Python call would bind" (assumed model, see
pyvc/engine_inspect.py); proved here is that the library hands the caller's params to it unchanged (list -> positional,
object -> named, nothing else), turns a failed binding into ValidationError (the dispatcher then answers -32602 without
running the method, C03), excludes the context parameter from what the client may bind, injects the context AFTER binding
(so nothing the client sent can override it) and builds the callable from the bound arguments and nothing else."""
from pyvc.api import contract
from spec.prims import (is_fresh, bound_arguments, dict_eq, dict_eq_except, filtered_sig, is_absent, is_param, is_partial, member, old,
                        partial_args, partial_func, partial_kwargs, same, sig_binds, tlen, ufv)

from pjrpc.server.validators.base import ValidationError


@contract('pjrpc.server.validators.base:BaseValidator.signature', props=['C04', 'C14', 'C17'])
class ValidatorSignature:
    """ASSUMED (+ bounded stand-in standins/validator_signature.py): the lru_cache'd signature(method, exclude) is a
    function of its arguments - the method's own signature without the excluded names and without the parameters the
    exclusion predicate selects.  (The loop that filters the parameters needs an invariant with a quantifier
    alternation; the cache is transparent because the result depends on the arguments only.)"""
    assumed = True
    types = {'self': 'pjrpc.server.validators.base:BaseValidator', 'exclude': '=tuple'}
    raises_only = ()
    result_type = '=Signature'
    modifies = ()           # A-user: the exclusion predicate is a pure function (no observable effect)

    def ensures_filtered(self, method, exclude, result):
        return same(result, filtered_sig(self, method, exclude))

    def ensures_excluded_names_are_no_parameters(self, method, exclude, result):
        # C04: a name listed in `exclude` (the context parameter) is not a parameter the client can bind
        return all(not is_param(result, n) for n in exclude)


@contract('pjrpc.server.validators.base:BaseValidator.bind', props=['C04', 'C14', 'C13'])
class ValidatorBind:
    types = {'self': 'pjrpc.server.validators.base:BaseValidator', 'signature': '=Signature', 'params': 'opt:list|dict'}
    raises_only = ('pjrpc.server.validators.base:ValidationError',)
    result_type = '=BoundArguments'
    result_fresh = True
    result_fresh_attrs = {'arguments': 'dict'}      # .arguments is a new dict owned by the new BoundArguments
    cross_check = False

    def returns_iff(self, signature, params):
        # C04: accepted exactly when a direct call with the positional list / the named mapping would bind
        return sig_binds(signature, params)

    def ensures_arguments(self, signature, params, result):
        # ... and what was bound is what Python binds for that call: nothing added, dropped or converted
        return dict_eq(result.arguments, bound_arguments(signature, params))

    def ensures_on_ValidationError(self, signature, params, exc):
        # nothing ran; the description handed to the caller is a string
        return tlen() == old(tlen()) and isinstance(exc.args, tuple) and len(exc.args) == 1 and isinstance(exc.args[0], str)


@contract('pjrpc.server.validators.base:BaseValidator.validate_method', props=['C04', 'C14', 'C13'])
class ValidateMethod:
    types = {'self': 'pjrpc.server.validators.base:BaseValidator', 'params': 'opt:list|dict', 'exclude': '=tuple',
             'kwargs': '=dict'}
    raises_only = ('pjrpc.server.validators.base:ValidationError',)
    result_type = '=dict'
    result_fresh = True         # a new dict: the caller may add to it (the context) without touching anything else
    modifies = ()
    cross_check = False

    def ensures_on_ValidationError(self, method, params, exclude, kwargs, exc):
        return tlen() == old(tlen()) and isinstance(exc.args, tuple) and len(exc.args) == 1 and isinstance(exc.args[0], str)

    def returns_iff(self, method, params, exclude, kwargs):
        return sig_binds(filtered_sig(self, method, exclude), params)

    def ensures_arguments(self, method, params, exclude, kwargs, result):
        return dict_eq(result, bound_arguments(filtered_sig(self, method, exclude), params))

    def ensures_excluded_not_bound(self, method, params, exclude, kwargs, result):
        # C04: whatever the client sent, an excluded name (the context parameter) is not among the bound arguments
        b = bound_arguments(filtered_sig(self, method, exclude), params)
        return dict_eq(result, b) and all(is_absent(member(b, n)) for n in exclude)


def method_ok(m):
    """A-user configuration of a registered method: the default validator, a context name that is a string"""
    return (isinstance(m.validator, BaseValidator) and class_is(m.validator, BaseValidator)
            and isinstance(m.validator_args, dict) and len(m.validator_args) == 0
            and (m.context is None or (isinstance(m.context, str) and len(m.context) > 0))
            and isinstance(m.positional, bool))


from spec.prims import class_is
from pjrpc.server.validators.base import BaseValidator


def exclude_of(m):
    return (m.context,) if m.context else ()


@contract('pjrpc.server.dispatcher:Method.bind@c04', props=['C04', 'C13'])
class MethodBindProved:
    """The same function as the (abstract) MethodBind contract the dispatcher proofs use: there the outcome predicate is
    the uninterpreted binds(method, params) and the result an abstract callable 'bound_of = method'; here binds is
    DEFINED as sig_binds(filtered signature, params) and the callable is the functools.partial built below."""
    types = {'self': '=pjrpc.server.dispatcher:Method', 'params': 'opt:list|dict', 'context': 'any'}
    raises_only = ('pjrpc.server.validators.base:ValidationError',)
    modifies = ()
    cross_check = False

    def requires_config(self, params, context):
        return method_ok(self)

    def returns_iff(self, params, context):
        # C04: -32602 (ValidationError) exactly when a direct call could not bind; the body never runs then
        return sig_binds(filtered_sig(self.validator, self.method, exclude_of(self)), params)

    def ensures_on_ValidationError(self, params, context, exc):
        return tlen() == old(tlen())        # nothing executed

    def ensures_callable(self, params, context, result):
        # the user's own function object, with the context first when it is positional and nothing else positional
        if not (is_partial(result) and same(partial_func(result), self.method)):
            return False
        a = partial_args(result)
        if self.context is not None and self.positional:
            return len(a) == 1 and same(a[0], context)
        return len(a) == 0

    def ensures_arguments(self, params, context, result):
        # named arguments: exactly what Python binds for the caller's params; plus the context under its name
        b = bound_arguments(filtered_sig(self.validator, self.method, exclude_of(self)), params)
        k = partial_kwargs(result)
        if self.context is not None and not self.positional:
            # the context always comes from the server: injected after binding, it overrides anything bound
            return same(member(k, self.context), context) and dict_eq_except(k, b, self.context)
        return dict_eq(k, b)


# ------------------------------------------------------------------------------------------------ C14 (jsonschema validator)
from spec.prims import schema_ok


@contract('pjrpc.server.validators.jsonschema:JsonSchemaValidator.validate_method', props=['C14', 'C13'])
class JsonSchemaValidate:
    """C14 for the schema validator: a call is accepted iff its params bind to the signature (C04) AND the bound
    arguments satisfy the schema; otherwise ValidationError carrying a string (-> -32602, body not run); accepted
    arguments reach the method unchanged; excluded parameters are not among them.
    jsonschema.validate is ASSUMED: it raises jsonschema.ValidationError exactly when the uninterpreted
    schema_ok(instance, keyword arguments) fails, has no effect, and raises nothing else (a malformed schema -
    SchemaError - is a configuration error outside the property)."""
    types = {'self': '=pjrpc.server.validators.jsonschema:JsonSchemaValidator', 'params': 'opt:list|dict', 'exclude': '=tuple',
             'kwargs': '=dict'}
    raises_only = ('pjrpc.server.validators.base:ValidationError',)
    result_type = '=dict'
    result_fresh = True
    modifies = ()
    cross_check = False

    def requires_config(self, method, params, exclude, kwargs):
        return isinstance(self.default_kwargs, dict)

    def raises_ValidationError_iff(self, method, params, exclude, kwargs):
        sig = filtered_sig(self, method, exclude)
        if not sig_binds(sig, params):
            return True
        return not schema_ok(bound_arguments(sig, params), self.default_kwargs, kwargs)

    def ensures_arguments(self, method, params, exclude, kwargs, result):
        # accepted arguments reach the method unchanged
        return dict_eq(result, bound_arguments(filtered_sig(self, method, exclude), params))

    def ensures_on_ValidationError(self, method, params, exclude, kwargs, exc):
        # the description the caller gets is a string (JSON-encodable)
        return tlen() == old(tlen()) and isinstance(exc.args, tuple) and len(exc.args) == 1 and isinstance(exc.args[0], str)
