"""Sidecar contracts for the HTTP integrations (C18).  One spec (spec/http.py), three bodies.

Assumed framework contracts (validated natively by probes/c18_integrations.py):
  * request.mimetype (werkzeug, flask) / request.content_type (aiohttp) is the media type of the Content-Type
    header without parameters, lower-cased ('' resp. 'application/octet-stream' when the header is missing);
  * werkzeug's request.content_type is the RAW header value (so equal to the media type only when the header
    carries no parameters);
  * flask's request.is_json  ==  mimetype == 'application/json' or mimetype.endswith('+json');
  * an HTTPException raised out of a flask view / aiohttp handler becomes a response with its status code; one
    raised out of a bare WSGI callable is NOT converted (it reaches the WSGI server as a crash);
  * HTTPException.get_response() carries the exception's code; calling a response object sends it.
The dispatcher is an abstract callable here (its own contract is C01): it returns None or (text, codes)."""
import flask
import werkzeug

from pyvc.api import contract
from spec.http import accepted, relayed
from spec.prims import ev_args, ev_callee, ev_kind, has_type, old, same, tlen


@contract('pjrpc.server.integration.aiohttp:Application._rpc_handle', props=['C18'])
class AiohttpHandle:
    types = {'self': 'pjrpc.server.integration.aiohttp:Application', 'http_request': '=ExtHttpRequest',
             'dispatcher': 'pjrpc.server.dispatcher:AsyncDispatcher'}
    raises_only = ('HTTPUnsupportedMediaType', 'HTTPBadRequest')
    result_type = '=ExtHttpResponse'
    modifies = ('$trace',)
    cross_check = False
    oracle_calls = {'pjrpc.server.dispatcher:AsyncDispatcher.dispatch': {
        'returns': 'none|=tuple', 'raises': (), 'returned_invariant': 'spec.http:dispatch_result_ok'}}

    def raises_HTTPUnsupportedMediaType_iff(self, http_request, dispatcher):
        # C18: any media type other than the documented JSON-RPC request types is refused with 415
        return not accepted(http_request.content_type)

    def ensures_on_HTTPUnsupportedMediaType(self, http_request, dispatcher, exc):
        return tlen() == old(tlen())            # ... and executes nothing

    def ensures_on_HTTPBadRequest(self, http_request, dispatcher, exc):
        return tlen() == old(tlen()) + 1 and ev_kind(old(tlen())) == 'call:text'    # only the body was read

    def ensures_relayed(self, http_request, dispatcher, result):
        return relayed(old(tlen()), 'call:text', http_request, dispatcher, http_request, self._status_by_error, result)


@contract('pjrpc.server.integration.flask:JsonRPC._rpc_handle', props=['C18'])
class FlaskHandle:
    """`flask.request` is the process-global request proxy: one opaque ExtHttpRequest object"""
    types = {'self': 'pjrpc.server.integration.flask:JsonRPC', 'dispatcher': 'pjrpc.server.dispatcher:Dispatcher'}
    raises_only = ('HTTPUnsupportedMediaType', 'HTTPBadRequest')
    result_type = '=ExtHttpResponse'
    modifies = ('$trace', 'flask.request.encoding_errors')
    cross_check = False
    oracle_calls = {'pjrpc.server.dispatcher:Dispatcher.dispatch': {
        'returns': 'none|=tuple', 'raises': (), 'returned_invariant': 'spec.http:dispatch_result_ok'}}

    def raises_HTTPUnsupportedMediaType_iff(self, dispatcher):
        return not accepted(flask.request.mimetype)

    def ensures_on_HTTPUnsupportedMediaType(self, dispatcher, exc):
        return tlen() == old(tlen())

    def ensures_on_HTTPBadRequest(self, dispatcher, exc):
        return tlen() == old(tlen()) + 1 and ev_kind(old(tlen())) == 'call:get_data'

    def ensures_relayed(self, dispatcher, result):
        return relayed(old(tlen()), 'call:get_data', flask.request, dispatcher, None, self._status_by_error, result)


@contract('pjrpc.server.integration.werkzeug:JsonRPC._rpc_handle', props=['C18'])
class WerkzeugHandle:
    types = {'self': 'pjrpc.server.integration.werkzeug:JsonRPC', 'request': '=ExtHttpRequest'}
    raises_only = ('HTTPUnsupportedMediaType', 'HTTPBadRequest')
    result_type = '=ExtHttpResponse'
    modifies = ('$trace',)
    cross_check = False
    oracle_calls = {'pjrpc.server.dispatcher:Dispatcher.dispatch': {
        'returns': 'none|=tuple', 'raises': (), 'returned_invariant': 'spec.http:dispatch_result_ok'}}

    def raises_HTTPUnsupportedMediaType_iff(self, request):
        return not accepted(request.mimetype)

    def ensures_on_HTTPUnsupportedMediaType(self, request, exc):
        return tlen() == old(tlen())

    def ensures_on_HTTPBadRequest(self, request, exc):
        return tlen() == old(tlen()) + 1 and ev_kind(old(tlen())) == 'call:get_data'

    def ensures_relayed(self, request, result):
        # no status-by-error function can be configured here: always 200
        return relayed(old(tlen()), 'call:get_data', request, self._dispatcher, request, None, result)


@contract('pjrpc.server.integration.werkzeug:JsonRPC.wsgi_app', props=['C18'], also=())
class WerkzeugWsgi:
    """the WSGI entry point: whatever happens, a response object is SENT (called with environ, start_response) -
    an HTTPException escaping here is a crash of the WSGI server, not a 415"""
    types = {'self': 'pjrpc.server.integration.werkzeug:JsonRPC', 'environ': '=dict', 'start_response': 'callable'}
    raises_only = ()
    modifies = ('$trace', 'environ')
    cross_check = False

    def ensures_answered(self, environ, start_response, result):
        n = tlen()
        return (n >= old(tlen()) + 1 and ev_kind(n - 1) == 'call' and same(ev_args(n - 1)[0], environ)
                and same(ev_args(n - 1)[1], start_response) and has_type(ev_callee(n - 1), '=ExtHttpResponse'))

    def ensures_refusal_is_415(self, environ, start_response, result):
        n = tlen()
        req = werkzeug.Request(environ)
        if not accepted(req.mimetype):
            return n == old(tlen()) + 1 and ev_callee(n - 1).status == 415
        return True
