"""Sidecar contracts for pjrpc/client/retry.py (C09)."""
from pyvc.api import contract
from spec.prims import (at_entry, ev_args, ev_callee, ev_kind, ev_outcome, ev_value, exc_listed, is_fresh, iter_pos,
                        iter_source, old, same, tlen, ufv, ufvt)

from pjrpc.common.common import UNSET
from pjrpc.common.v20 import BatchResponse, Response
from pjrpc.client.retry import RetryStrategy


def delays_of(backoff):
    """the delay sequence the backoff yields (closed forms are proved per backoff class)"""
    return ufvt('delays', '=tuple', backoff)


@contract('pjrpc.client.retry:Backoff.__call__',
          also=('pjrpc.client.retry:PeriodicBackoff.__call__', 'pjrpc.client.retry:ExponentialBackoff.__call__',
                'pjrpc.client.retry:FibonacciBackoff.__call__'),
          props=['C09'])
class BackoffCall:
    """ASSUMED at call sites of the retry loop: calling a backoff yields a fresh iterator over its delay
    sequence (a tuple of numbers)."""
    assumed = True
    types = {'self': 'pjrpc.client.retry:Backoff'}
    raises_only = ()
    result_type = '=iterator'
    result_fresh = True

    def ensures_iter(self, result):
        d = iter_source(result)
        return (same(d, delays_of(self)) and isinstance(d, tuple) and same(iter_pos(result), 0)
                and all(isinstance(x, (int, float)) and not isinstance(x, bool) for x in d))


def code_listed(strategy, response):
    """the response carries an error whose code is listed for retry"""
    if not isinstance(response, (Response, BatchResponse)):
        return False
    return bool(response.is_error and strategy.codes and response.get_error().code in strategy.codes)


@contract('pjrpc.client.retry:retry.<locals>.wrapped', also=('pjrpc.client.retry:retry_async.<locals>.wrapped',),
          props=['C09', 'C11', 'C19'])
class RetryWrapped:
    closure = {'func': '=UserTransport', 'retry_strategy': 'pjrpc.client.retry:RetryStrategy'}
    raises_only = ('BaseException',)
    modifies = ('$trace',)
    cross_check = False
    loop0 = {'ghosts': ['trace'], 'modifies': ['delays.$pos']}

    def invariant0(func, retry_strategy, delays, k):
        # head of the k-th attempt: k attempts made so far, each followed by one pause
        b = at_entry(tlen())
        d = delays_of(retry_strategy.backoff)
        if not (same(iter_source(delays), d) and same(iter_pos(delays), k) and k <= len(d) and tlen() == b + 2 * k):
            return False
        if k == 0:
            return True
        # the previous iteration: a send whose outcome was listed for retry, then a pause of exactly the
        # (k-1)-th delay of the backoff
        i = b + 2 * k - 2
        a = ev_args(i + 1)
        if not (ev_kind(i) == 'call' and same(ev_callee(i), func)
                and ev_kind(i + 1) == 'sleep' and len(a) == 1 and same(a[0], d[k - 1])):
            return False
        if ev_outcome(i) == 'ret':
            return ev_value(i) is not None and code_listed(retry_strategy, ev_value(i))
        return exc_listed(retry_strategy.exceptions, ev_value(i))

    def ensures_returned(func, retry_strategy, result):
        # C09: the caller receives the last attempt's outcome unchanged; at most n + 1 sends with no pause
        # after the last; a response with a listed code is only handed back when no attempt remains
        b = old(tlen())
        d = delays_of(retry_strategy.backoff)
        n = tlen() - b
        last = tlen() - 1
        return (1 <= n and n <= 2 * len(d) + 1
                and ev_kind(last) == 'call' and same(ev_callee(last), func)
                and ev_outcome(last) == 'ret' and same(ev_value(last), result)
                and (result is None or not code_listed(retry_strategy, result) or n == 2 * len(d) + 1))

    def ensures_on_BaseException(func, retry_strategy, exc):
        b = old(tlen())
        d = delays_of(retry_strategy.backoff)
        n = tlen() - b
        last = tlen() - 1
        return (1 <= n and n <= 2 * len(d) + 1
                and ev_kind(last) == 'call' and same(ev_callee(last), func)
                and ev_outcome(last) == 'raise' and same(ev_value(last), exc)
                and (not exc_listed(retry_strategy.exceptions, exc) or n == 2 * len(d) + 1))


@contract('pjrpc.client.client:AbstractClient.retried.<locals>.wrapper',
          also=('pjrpc.client.client:AbstractAsyncClient.retried.<locals>.wrapper',),
          props=['C09', 'C11'])
class RetriedWrapper:
    """C09: a per-request strategy replaces the client-wide one (an explicit None disables retrying); without a
    strategy the send happens exactly once; with one it is the retry loop's behaviour for THAT strategy."""
    types = {'self': 'pjrpc.client.client:BaseAbstractClient', 'request': 'any', '_retry_strategy': 'any'}
    closure = {'method': '=UserTransport'}
    raises_only = ('BaseException',)
    modifies = ('$trace',)
    cross_check = False

    def requires_strategy(self, request, _retry_strategy, method):
        return ((_retry_strategy is UNSET or _retry_strategy is None or isinstance(_retry_strategy, RetryStrategy))
                and (self._retry_strategy is None or isinstance(self._retry_strategy, RetryStrategy)))

    def ensures_returned(self, request, _retry_strategy, method, result):
        eff = self._retry_strategy if _retry_strategy is UNSET else _retry_strategy
        b = old(tlen())
        last = tlen() - 1
        if not (tlen() >= b + 1 and ev_kind(last) == 'call' and same(ev_callee(last), method)
                and ev_outcome(last) == 'ret' and same(ev_value(last), result)):
            return False
        if eff is None:
            # no strategy: exactly one send, of this request
            a = ev_args(last)
            return tlen() == b + 1 and len(a) == 2 and same(a[0], self) and same(a[1], request)
        return tlen() - b <= 2 * len(delays_of(eff.backoff)) + 1

    def ensures_on_BaseException(self, request, _retry_strategy, method, exc):
        eff = self._retry_strategy if _retry_strategy is UNSET else _retry_strategy
        b = old(tlen())
        last = tlen() - 1
        if not (tlen() >= b + 1 and ev_kind(last) == 'call' and same(ev_callee(last), method)
                and ev_outcome(last) == 'raise' and same(ev_value(last), exc)):
            return False
        if eff is None:
            return tlen() == b + 1
        return tlen() - b <= 2 * len(delays_of(eff.backoff)) + 1
