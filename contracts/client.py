"""Sidecar contracts for pjrpc/client/client.py."""
from pyvc.api import contract
from spec.prims import (at_entry, class_is, ev_args, ev_callee, ev_kind, ev_kwargs, ev_outcome, ev_value, implies, seq_same,
                        is_absent, member, old, same, tlen)

from pjrpc.common.common import UNSET
from pjrpc.common import exceptions


def tracer_event_ok(i, kind, tracer, ctx, request):
    """event i is the call tracer.<kind>(ctx, request, ...) and it returned"""
    a = ev_args(i)
    return (ev_kind(i) == kind and same(ev_callee(i), tracer) and ev_outcome(i) == 'ret'
            and len(a) >= 2 and same(a[0], ctx) and same(a[1], request))


@contract('pjrpc.client.client:AbstractClient.traced.<locals>.wrapper',
          also=('pjrpc.client.client:AbstractAsyncClient.traced.<locals>.wrapper',),
          props=['C19', 'C11'])
class TracedWrapper:
    """C19: every tracer gets a begin event then exactly one completion event (end with the response, or
    error with the raised exception), in configuration order, all with one trace context; the exception
    leaves unchanged."""
    types = {'self': 'pjrpc.client.client:BaseAbstractClient', 'request': 'any', '_trace_ctx': 'opt:object'}
    closure = {'method': '=UserTransport'}
    raises_only = ('BaseException',)
    modifies = ('$trace',)
    cross_check = False
    loop0 = {'ghosts': ['trace']}
    loop1 = {'ghosts': ['trace']}
    loop2 = {'ghosts': ['trace']}

    # loop 0: begin events
    def invariant0(self, request, _trace_ctx, trace_ctx, xs, k):
        b = at_entry(tlen())
        if tlen() != b + k:
            return False
        return k == 0 or tracer_event_ok(b + k - 1, 'call:on_request_begin', xs[k - 1], trace_ctx, request)

    # loop 1: error events (inside the except BaseException handler)
    def invariant1(self, request, _trace_ctx, trace_ctx, e, xs, k):
        b = at_entry(tlen())
        if tlen() != b + k:
            return False
        if k == 0:
            return True
        a = ev_args(b + k - 1)
        return tracer_event_ok(b + k - 1, 'call:on_error', xs[k - 1], trace_ctx, request) and len(a) == 3 and same(a[2], e)

    # loop 2: end events
    def invariant2(self, request, _trace_ctx, trace_ctx, response, xs, k):
        b = at_entry(tlen())
        if tlen() != b + k:
            return False
        if k == 0:
            return True
        a = ev_args(b + k - 1)
        return (tracer_event_ok(b + k - 1, 'call:on_request_end', xs[k - 1], trace_ctx, request)
                and len(a) == 3 and same(a[2], response))

    def ensures_returned(self, request, _trace_ctx, method, result):
        n = len(self._tracers)
        b = old(tlen())
        # begin * n, the wrapped send (returned `result`), end * n
        return (tlen() == b + 2 * n + 1
                and ev_kind(b + n) == 'call' and same(ev_callee(b + n), method)
                and ev_outcome(b + n) == 'ret' and same(ev_value(b + n), result)
                and same(ev_args(b + n)[0], self) and same(ev_args(b + n)[1], request))

    def ensures_on_BaseException(self, request, _trace_ctx, method, exc):
        n = len(self._tracers)
        b = old(tlen())
        # begin * n, the wrapped send (raised), error * n; the very same exception object leaves
        return (tlen() == b + 2 * n + 1
                and ev_kind(b + n) == 'call' and same(ev_callee(b + n), method)
                and ev_outcome(b + n) == 'raise' and same(ev_value(b + n), exc))

    def ensures_ctx(self, request, _trace_ctx, method, result):
        # the caller-supplied context is used when given (and truthy), and handed on to the wrapped send
        b = old(tlen())
        n = len(self._tracers)
        passed = member(ev_kwargs(b + n), '_trace_ctx')
        return not is_absent(passed) and (_trace_ctx is None or same(passed, _trace_ctx))


# ------------------------------------------------------------------------------------------------ C08 single
from spec.jsonrpc import id_ok, valid_response_obj
from spec.wire import request_wire
from pjrpc.common.v20 import BatchRequest, BatchResponse, Request, Response


@contract('pjrpc.client.client:BaseAbstractClient._relate', props=['C08', 'C07'])
class ClientRelate:
    types = {'self': 'pjrpc.client.client:BaseAbstractClient', 'request': '=pjrpc.common.v20:Request',
             'response': '=pjrpc.common.v20:Response'}
    raises_only = ('pjrpc.common.exceptions:IdentityError',)
    modifies = ('response._related',)

    def requires_ids(self, request, response):
        return id_ok(request._id) and id_ok(response._id)

    def returns_iff(self, request, response):
        # C08: in strict mode a response whose non-null id differs from the request id (by value AND JSON type)
        # raises the identity error instead of returning data
        mismatch = response._id is not None and not same(response._id, request._id)
        return not (self.strict and mismatch)

    def ensures_linked(self, request, response, result):
        return result is None and same(response._related, request)

    def ensures_on_IdentityError(self, request, response, exc):
        # nothing is linked when the ids do not match
        return same(response._related, old(response._related))


# ------------------------------------------------------------------------------------------------ C07 / C08: the raw send
import json
from spec.prims import ufv
from pjrpc.common.common import JSONEncoder


def client_config_ok(c):
    """A-classes: default message classes, stdlib json, library encoder"""
    return (c.request_class is Request and c.response_class is Response
            and c.batch_request_class is BatchRequest and c.batch_response_class is BatchResponse
            and c.json_dumper is json.dumps and c.json_loader is json.loads and c.json_encoder is JSONEncoder
            and issubclass(c.error_cls, exceptions.JsonRpcError))


def transport_call(i, request, is_notification):
    """C07: event i is the call of the transport with a text whose document is exactly the request's wire
    form, flagged as a notification iff the request has no id; it returned"""
    a = ev_args(i)
    return (ev_kind(i) == 'call:_request' and ev_outcome(i) == 'ret' and len(a) == 2 and isinstance(a[0], str)
            and request_wire(ufv('doc_of', a[0]), request) and same(a[1], is_notification))


@contract('pjrpc.client.client:AbstractClient._send', also=('pjrpc.client.client:AbstractAsyncClient._send',),
          props=['C07', 'C08', 'C11'])
class RawSendSingle:
    """the undecorated _send for a single request (the batch variant is a separate contract)"""
    types = {'self': 'pjrpc.client.client:BaseAbstractClient', 'request': '=pjrpc.common.v20:Request',
             'validator': '=UserValidator', '_trace_ctx': 'any'}
    pins = {'response_class': 'pjrpc.common.v20:Response'}
    raises_only = ('BaseException',)
    modifies = ('$trace',)
    cross_check = False

    def requires_config(self, request, response_class, validator, _trace_ctx):
        return (client_config_ok(self) and isinstance(request._method, str) and id_ok(request._id)
                and (request._params is None or isinstance(request._params, (list, tuple, dict))))

    def ensures_call(self, request, response_class, validator, _trace_ctx, result):
        b = old(tlen())
        if request._id is None:
            # C07: a notification puts one document on the wire and returns nothing
            return result is None and tlen() == b + 1 and transport_call(b, request, True)
        # C08: the response was decoded from the body the transport returned and handed to the validator
        # together with the request, exactly once
        return (isinstance(result, Response) and tlen() == b + 2
                and transport_call(b, request, False)
                and valid_response_obj(ufv('parsed', ev_value(b)))
                and ev_kind(b + 1) == 'call' and same(ev_callee(b + 1), validator) and ev_outcome(b + 1) == 'ret'
                and same(ev_args(b + 1)[0], request) and same(ev_args(b + 1)[1], result))


# ------------------------------------------------------------------------------------------------ C07: call / notify / send
@contract('pjrpc.client.client:AbstractClient._send@stack', also=('pjrpc.client.client:AbstractAsyncClient._send@stack',),
          props=['C07', 'C08'])
class SendStack:
    """ASSUMED composition of the decorator stack retried(traced(raw _send)): each layer is proved separately
    (RetriedWrapper / RetryWrapped, TracedWrapper, RawSendSingle); that the stacked callable makes at least one
    raw send of THIS request and hands back the last raw outcome is the (paper) composition of those contracts."""
    assumed = True
    types = {'self': 'pjrpc.client.client:BaseAbstractClient', 'request': '=pjrpc.common.v20:Request'}
    raises_only = ('BaseException',)
    modifies = ('$trace',)

    def ensures_outcome(self, request, response_class, validator, _trace_ctx, result):
        b = old(tlen())
        if not (tlen() > b and transport_call(b, request, request._id is None)):
            return False
        if request._id is None:
            return result is None
        return (isinstance(result, Response) and class_is(result, Response)
                and (result._id is None or not self.strict or same(result._id, request._id))
                and ((result._result is UNSET) != (result._error is UNSET))
                and (result._error is UNSET or isinstance(result._error, exceptions.JsonRpcError)))


def args_or_kwargs_wire(doc, args, kwargs):
    """the params member carries the positional arguments if any were given, else the named ones, else is absent"""
    p = member(doc, 'params')
    if len(args) > 0:
        return isinstance(p, tuple) and seq_same(p, args)
    if len(kwargs) > 0:
        return isinstance(p, dict) and len(p) == len(kwargs)
    return is_absent(p)


@contract('pjrpc.client.client:AbstractClient.call', also=('pjrpc.client.client:AbstractAsyncClient.call',),
          props=['C07', 'C11'])
class ClientCall:
    types = {'self': 'pjrpc.client.client:BaseAbstractClient', 'method': 'str', '_trace_ctx': 'any'}
    raises_only = ('BaseException',)
    modifies = ('$trace',)
    cross_check = False

    def requires_config(self, method, args, _trace_ctx, kwargs):
        return client_config_ok(self)

    def ensures_request(self, method, args, _trace_ctx, kwargs, result):
        # C07: one well-formed request document on the wire: the method, a fresh non-null id, the arguments
        # positional or named as given
        b = old(tlen())
        if not (tlen() >= b + 3):
            return False
        text = ev_args(b + 2)[0]
        doc = ufv('doc_of', text)
        i = member(doc, 'id')
        return (ev_kind(b + 2) == 'call:_request' and isinstance(doc, dict)
                and member(doc, 'jsonrpc') == '2.0' and same(member(doc, 'method'), method)
                and not is_absent(i) and i is not None and id_ok(i) and same(i, ev_value(b + 1))
                and same(ev_args(b + 2)[1], False) and args_or_kwargs_wire(doc, args, kwargs))


@contract('pjrpc.client.client:AbstractClient.notify', also=('pjrpc.client.client:AbstractAsyncClient.notify',),
          props=['C07', 'C11'])
class ClientNotify:
    types = {'self': 'pjrpc.client.client:BaseAbstractClient', 'method': 'str', '_trace_ctx': 'any'}
    raises_only = ('BaseException',)
    modifies = ('$trace',)
    cross_check = False

    def requires_config(self, method, args, _trace_ctx, kwargs):
        return client_config_ok(self)

    def ensures_request(self, method, args, _trace_ctx, kwargs, result):
        # C07: a notification puts one document WITHOUT an id member on the wire and returns nothing
        b = old(tlen())
        if not (tlen() >= b + 1):
            return False
        doc = ufv('doc_of', ev_args(b)[0])
        return (result is None and ev_kind(b) == 'call:_request' and isinstance(doc, dict)
                and member(doc, 'jsonrpc') == '2.0' and same(member(doc, 'method'), method)
                and is_absent(member(doc, 'id')) and same(ev_args(b)[1], True)
                and args_or_kwargs_wire(doc, args, kwargs))


# ------------------------------------------------------------------------------------------------ C07: batch notation (add / notify)
from spec.prims import seq_concat, seq_same, dup_in, dict_eq


def carries(r, args, kwargs):
    """the request's parameters are the positional arguments if any, else the named ones, else there are none (an empty
    tuple and an empty dict are the same on the wire: no params member)"""
    if len(args) > 0:
        return seq_same(r._params, args)
    if len(kwargs) > 0:
        return dict_eq(r._params, kwargs)
    return r._params is None or len(r._params) == 0


def batch_ok(b):
    """what BaseBatch.__init__ establishes: a strict BatchRequest being filled, an id iterator, the default request class"""
    return (isinstance(b._requests, BatchRequest) and class_is(b._requests, BatchRequest)
            and b._client.request_class is Request and has_type(b._id_gen, '=UserIdIter')
            and isinstance(b._requests._requests, list))


from pjrpc.common.v20 import BatchRequest, Request
from spec.prims import has_type


@contract('pjrpc.client.client:BaseBatch.add', props=['C07'])
class BatchAdd:
    """C07 (batch notation): batch.add(method, *args, **kwargs) / batch(method, ...) appends ONE call request carrying the
    method name, the positional arguments if any else the named ones, and the NEXT id of the batch's id iterator"""
    types = {'self': 'pjrpc.client.client:BaseBatch', 'method': 'str', 'args': '=tuple', 'kwargs': '=dict'}
    raises_only = ('AssertionError', 'pjrpc.common.exceptions:IdentityError')
    modifies = ('$trace', 'self._requests._ids', '$seq(self._requests._requests)')
    cross_check = False

    def requires_batch(self, method, args, kwargs):
        return batch_ok(self)

    def raises_AssertionError_iff(self, method, args, kwargs):
        return len(args) > 0 and len(kwargs) > 0          # positional and named arguments are mutually exclusive

    def ensures_on_AssertionError(self, method, args, kwargs, exc):
        return tlen() == old(tlen()) and seq_same(self._requests._requests, old(tuple(self._requests._requests)))

    def ensures_appended(self, method, args, kwargs, result):
        rs = self._requests._requests
        n0 = old(len(self._requests._requests))
        if not (same(result, self) and len(rs) == n0 + 1 and tlen() == old(tlen()) + 1
                and seq_same(rs, seq_concat(old(tuple(self._requests._requests)), (rs[n0],)))):
            return False
        r = rs[n0]
        return (class_is(r, Request) and same(r._method, method) and same(r._id, ev_value(old(tlen())))
                and ev_kind(old(tlen())) == 'call:__next__' and same(ev_callee(old(tlen())), self._id_gen)
                and carries(r, args, kwargs))


@contract('pjrpc.client.client:BaseBatch.notify', props=['C07'])
class BatchNotify:
    """... and batch.notify(...) appends ONE notification (no id taken from the iterator)"""
    types = {'self': 'pjrpc.client.client:BaseBatch', 'method': 'str', 'args': '=tuple', 'kwargs': '=dict'}
    raises_only = ('AssertionError', 'pjrpc.common.exceptions:IdentityError')   # (dup_in is uninterpreted: cannot be excluded)
    modifies = ('$seq(self._requests._requests)', 'self._requests._ids')
    cross_check = False

    def requires_batch(self, method, args, kwargs):
        return batch_ok(self)

    def raises_AssertionError_iff(self, method, args, kwargs):
        return len(args) > 0 and len(kwargs) > 0

    def ensures_appended(self, method, args, kwargs, result):
        rs = self._requests._requests
        n0 = old(len(self._requests._requests))
        if not (same(result, self) and len(rs) == n0 + 1 and tlen() == old(tlen())
                and seq_same(rs, seq_concat(old(tuple(self._requests._requests)), (rs[n0],)))):
            return False
        r = rs[n0]
        return (class_is(r, Request) and same(r._method, method) and r._id is None
                and carries(r, args, kwargs))
