"""Sidecar contracts for pjrpc/client/client.py."""
from pyvc.api import contract
from spec.prims import (at_entry, class_is, ev_args, ev_callee, ev_kind, ev_kwargs, ev_outcome, ev_value, implies,
                        is_absent, member, old, same, tlen)

from pjrpc.common.common import UNSET
from pjrpc.common import exceptions


def tracer_event_ok(i, kind, tracer, ctx, request):
    """event i is the call tracer.<kind>(ctx, request, ...) and it returned"""
    a = ev_args(i)
    return (ev_kind(i) == kind and same(ev_callee(i), tracer) and ev_outcome(i) == 'ret'
            and len(a) >= 2 and same(a[0], ctx) and same(a[1], request))


@contract('pjrpc.client.client:AbstractClient.traced.<locals>.wrapper',
          also=('pjrpc.client.client:AbstractAsyncClient.traced.<locals>.wrapper',),
          props=['C19', 'C11'])
class TracedWrapper:
    """C19: every tracer gets a begin event then exactly one completion event (end with the response, or
    error with the raised exception), in configuration order, all with one trace context; the exception
    leaves unchanged."""
    types = {'self': 'pjrpc.client.client:BaseAbstractClient', 'request': 'any', '_trace_ctx': 'opt:object'}
    closure = {'method': '=UserTransport'}
    raises_only = ('BaseException',)
    modifies = ('$trace',)
    cross_check = False
    loop0 = {'ghosts': ['trace']}
    loop1 = {'ghosts': ['trace']}
    loop2 = {'ghosts': ['trace']}

    # loop 0: begin events
    def invariant0(self, request, _trace_ctx, trace_ctx, xs, k):
        b = at_entry(tlen())
        if tlen() != b + k:
            return False
        return k == 0 or tracer_event_ok(b + k - 1, 'call:on_request_begin', xs[k - 1], trace_ctx, request)

    # loop 1: error events (inside the except BaseException handler)
    def invariant1(self, request, _trace_ctx, trace_ctx, e, xs, k):
        b = at_entry(tlen())
        if tlen() != b + k:
            return False
        if k == 0:
            return True
        a = ev_args(b + k - 1)
        return tracer_event_ok(b + k - 1, 'call:on_error', xs[k - 1], trace_ctx, request) and len(a) == 3 and same(a[2], e)

    # loop 2: end events
    def invariant2(self, request, _trace_ctx, trace_ctx, response, xs, k):
        b = at_entry(tlen())
        if tlen() != b + k:
            return False
        if k == 0:
            return True
        a = ev_args(b + k - 1)
        return (tracer_event_ok(b + k - 1, 'call:on_request_end', xs[k - 1], trace_ctx, request)
                and len(a) == 3 and same(a[2], response))

    def ensures_returned(self, request, _trace_ctx, method, result):
        n = len(self._tracers)
        b = old(tlen())
        # begin * n, the wrapped send (returned `result`), end * n
        return (tlen() == b + 2 * n + 1
                and ev_kind(b + n) == 'call' and same(ev_callee(b + n), method)
                and ev_outcome(b + n) == 'ret' and same(ev_value(b + n), result)
                and same(ev_args(b + n)[0], self) and same(ev_args(b + n)[1], request))

    def ensures_on_BaseException(self, request, _trace_ctx, method, exc):
        n = len(self._tracers)
        b = old(tlen())
        # begin * n, the wrapped send (raised), error * n; the very same exception object leaves
        return (tlen() == b + 2 * n + 1
                and ev_kind(b + n) == 'call' and same(ev_callee(b + n), method)
                and ev_outcome(b + n) == 'raise' and same(ev_value(b + n), exc))

    def ensures_ctx(self, request, _trace_ctx, method, result):
        # the caller-supplied context is used when given (and truthy), and handed on to the wrapped send
        b = old(tlen())
        n = len(self._tracers)
        passed = member(ev_kwargs(b + n), '_trace_ctx')
        return not is_absent(passed) and (_trace_ctx is None or same(passed, _trace_ctx))
