"""Sidecar contracts for the method registry of pjrpc/server/dispatcher.py (C15)."""
from pyvc.api import contract
from spec.prims import class_is, dict_is_update, is_absent, member, old, same

from pjrpc.server.dispatcher import Method


def qual(prefix, name):
    """the registered name: the registry prefix and the method name joined by a dot (no prefix: the name itself)"""
    return prefix + '.' + name if prefix else name


@contract('pjrpc.server.dispatcher:MethodRegistry._add_method', props=['C15'])
class RegistryAddMethod:
    types = {'self': 'pjrpc.server.dispatcher:MethodRegistry', 'method': 'pjrpc.server.dispatcher:Method'}
    raises_only = ()
    modifies = ('$dict(self._registry)',)

    def requires_name(self, method):
        return isinstance(method.name, str)

    def ensures_view(self, method, result):
        # C15: reachable under exactly method.name; a later registration replaces an earlier one; nothing else changes
        return result is None and dict_is_update(self._registry, method.name, method)


@contract('pjrpc.server.dispatcher:Method.__init__', props=['C15', 'C04'])
class MethodInit:
    types = {'self': 'pjrpc.server.dispatcher:Method', 'method': '=UserMethod', 'name': 'opt:str', 'context': 'opt:str',
             'positional': 'bool'}
    raises_only = ()
    modifies = ('self.method', 'self.name', 'self.context', 'self.positional', 'self.validator', 'self.validator_args',
                'method.__pjrpc_meta__', '$dict(method.__pjrpc_meta__)')
    cross_check = False

    def requires_fn(self, method, name, context, positional):
        return isinstance(method.__name__, str) and (
            not hasattr(method, '__pjrpc_meta__') or isinstance(method.__pjrpc_meta__, dict))

    def ensures_fields(self, method, name, context, positional, result):
        # C15: the explicit name or the function's own name
        return (same(self.method, method) and same(self.name, name if name else method.__name__)
                and same(self.context, context) and same(self.positional, positional))

    def ensures_meta_dict(self, method, name, context, positional, result):
        # the metadata dict kept on the function is the one it had, or a new one
        return isinstance(method.__pjrpc_meta__, dict) and (
            is_fresh(method.__pjrpc_meta__) or same(method.__pjrpc_meta__, old(_meta_or_none(method))))


from spec.prims import dict_same_except, is_fresh


def _meta_or_none(f):
    return f.__pjrpc_meta__ if hasattr(f, '__pjrpc_meta__') else None


@contract('pjrpc.server.dispatcher:MethodRegistry.add', props=['C15'])
class RegistryAdd:
    types = {'self': 'pjrpc.server.dispatcher:MethodRegistry', 'maybe_method': '=UserMethod', 'name': 'opt:str',
             'context': 'opt:str', 'positional': 'bool'}
    raises_only = ()
    modifies = ('$dict(self._registry)', 'maybe_method.__pjrpc_meta__', '$dict(maybe_method.__pjrpc_meta__)')
    cross_check = False

    def requires_fn(self, maybe_method, name, context, positional):
        return (isinstance(maybe_method.__name__, str) and len(maybe_method.__name__) > 0
                and (self._prefix is None or isinstance(self._prefix, str))
                and (not hasattr(maybe_method, '__pjrpc_meta__') or (
                    isinstance(maybe_method.__pjrpc_meta__, dict)
                    and not same(maybe_method.__pjrpc_meta__, self._registry))))

    def ensures_registered(self, maybe_method, name, context, positional, result):
        # C15: the set of callable names changes by exactly one key: the explicit name or the function's own
        # name, preceded by the registry prefix; the entry wraps exactly this function
        key = qual(self._prefix, name if name else maybe_method.__name__)
        m = member(self._registry, key)
        return (same(result, maybe_method) and dict_same_except(self._registry, key)
                and isinstance(m, Method) and same(m.method, maybe_method) and same(m.name, key)
                and same(m.context, context) and same(m.positional, positional))


@contract('pjrpc.server.dispatcher:MethodRegistry.get', props=['C15'])
class RegistryGet:
    types = {'self': 'pjrpc.server.dispatcher:MethodRegistry', 'item': 'str'}
    raises_only = ()

    def ensures_lookup(self, item, result):
        # C15: any name that was not registered yields nothing (the dispatcher turns that into -32601, see C03)
        m = member(self._registry, item)
        return (result is None) if is_absent(m) else same(result, m)


# ------------------------------------------------------------------------------------------------ merge (C15)
from spec.prims import at_entry, contents_as_old, contents_unchanged, is_fresh, key_pos, ufvt


@contract('pjrpc.server.dispatcher:Method.copy', props=['C15'])
class MethodCopy:
    """the re-prefixing copy used by MethodRegistry.merge: a NEW Method around the same function, under the given
    name, with the same context settings"""
    types = {'self': '=pjrpc.server.dispatcher:Method', 'kwargs': '=dict'}
    raises_only = ()
    modifies = ('self.method.__pjrpc_meta__', '$dict(self.method.__pjrpc_meta__)')
    result_type = 'pjrpc.server.dispatcher:Method'
    result_fresh = True
    cross_check = False

    def requires_call_shape(self, kwargs):
        # derived from the only call site (merge): copy(name=<non-empty str>)
        return (len(kwargs) == 1 and 'name' in kwargs and isinstance(kwargs['name'], str) and len(kwargs['name']) > 0
                and is_absent(member(kwargs, 'context')) and is_absent(member(kwargs, 'positional'))
                and isinstance(self.method.__name__, str)
                # (**kwargs is a dict made by the call itself - it is not the function's metadata dict)
                and (not hasattr(self.method, '__pjrpc_meta__') or (
                    isinstance(self.method.__pjrpc_meta__, dict) and not same(self.method.__pjrpc_meta__, kwargs))))

    def ensures_copy_class(self, kwargs, result):
        return isinstance(result, Method)

    def ensures_copy_method(self, kwargs, result):
        return same(result.method, self.method)

    def ensures_copy_name(self, kwargs, result):
        return same(result.name, member(kwargs, 'name'))

    def ensures_copy_context(self, kwargs, result):
        return same(result.context, self.context) and same(result.positional, self.positional)

    def ensures_meta_dict(self, kwargs, result):
        f = self.method
        return isinstance(f.__pjrpc_meta__, dict) and (
            is_fresh(f.__pjrpc_meta__) or same(f.__pjrpc_meta__, old(_meta_or_none(f))))


@contract('pjrpc.server.dispatcher:ViewMethod.copy', props=['C15'])
class ViewMethodCopy:
    """ASSUMED (listed in the trusted base): ViewMethod.__init__ re-reads the function with getattr(view_cls, method_name),
    a dynamic attribute read by a symbolic name - outside the modelled subset.  Same clauses as Method.copy; exercised
    natively by the bounded stand-in `registry_histories` (views merged through prefixed registries)."""
    types = {'self': '=pjrpc.server.dispatcher:ViewMethod', 'kwargs': '=dict'}
    assumed = True
    raises_only = ()
    modifies = ('self.method.__pjrpc_meta__', '$dict(self.method.__pjrpc_meta__)')
    result_type = 'pjrpc.server.dispatcher:Method'
    result_fresh = True
    cross_check = False

    def requires_call_shape(self, kwargs):
        # derived from the only call site (merge): copy(name=<non-empty str>)
        return (len(kwargs) == 1 and 'name' in kwargs and isinstance(kwargs['name'], str) and len(kwargs['name']) > 0
                and is_absent(member(kwargs, 'context')) and is_absent(member(kwargs, 'positional'))
                and isinstance(self.method.__name__, str)
                # (**kwargs is a dict made by the call itself - it is not the function's metadata dict)
                and (not hasattr(self.method, '__pjrpc_meta__') or (
                    isinstance(self.method.__pjrpc_meta__, dict) and not same(self.method.__pjrpc_meta__, kwargs))))

    def ensures_copy_class(self, kwargs, result):
        return isinstance(result, Method)

    def ensures_copy_method(self, kwargs, result):
        return same(result.method, self.method)

    def ensures_copy_name(self, kwargs, result):
        return same(result.name, member(kwargs, 'name'))

    def ensures_copy_context(self, kwargs, result):
        return same(result.context, self.context) and same(result.positional, self.positional)

    def ensures_meta_dict(self, kwargs, result):
        f = self.method
        return isinstance(f.__pjrpc_meta__, dict) and (
            is_fresh(f.__pjrpc_meta__) or same(f.__pjrpc_meta__, old(_meta_or_none(f))))


def _generic_name():
    """ONE arbitrary method name, the same constant in every clause: a clause proved for it is proved for every name
    (the universal quantifier over names is skolemised by hand; no quantifier reaches the solver)"""
    return ufvt('c15_generic_name', 'str')


def _generic_key():
    """ONE arbitrary registry key (see _generic_name)"""
    return ufvt('c15_generic_key', 'str')


def _pos(other, n):
    """position of the name n in the iteration order of `other` (the order merge processes it in)"""
    return key_pos(other._registry, n)


def _prefixed_state(k, now, before, src, pos):
    """C15 for the key prefix + '.' + g (g an arbitrary name; src / pos: entry and position of g in the merged registry)
    after the first k items were merged: the key reaches a copy of other's method iff g is one of those items; otherwise
    it is exactly what it was (present with the same method, or absent)"""
    if not is_absent(src) and pos < k:
        return (isinstance(now, Method) and isinstance(src, Method) and same(now.method, src.method)
                and same(now.context, src.context) and same(now.positional, src.positional))
    return same(now, before)


def _foreign_key(self, q):
    """q cannot be the prefixed form of any name"""
    return bool(self._prefix) and not q.startswith(self._prefix + '.')


def _meta_apart(m, reg):
    """the metadata dict that registration keeps on the user's function is not the registry's own name table"""
    f = m.method
    return not hasattr(f, '__pjrpc_meta__') or not same(f.__pjrpc_meta__, reg)


@contract('pjrpc.server.dispatcher:MethodRegistry.merge', props=['C15'])
class RegistryMerge:
    """C15: after merge the callable names are exactly the old ones plus prefix + '.' + name for every name of the merged
    registry; those reach (copies of) the merged methods - replacing what was there -, every other name is untouched, and
    the merged registry itself is unchanged.  The universal quantifier over names is skolemised by hand (_generic_key).
    Frame: coarse ($containers: the copies update the metadata dicts kept on the users' functions; '*.__pjrpc_meta__': a
    function registered for the first time gets one) - the whole-view clauses say what happened to both registries."""
    types = {'self': 'pjrpc.server.dispatcher:MethodRegistry', 'other': 'pjrpc.server.dispatcher:MethodRegistry'}
    raises_only = ()
    modifies = ('$containers', '*.__pjrpc_meta__')
    cross_check = False
    loop0 = {'modifies': ['$containers', '*.__pjrpc_meta__'], 'index': 'k'}

    def requires_distinct(self, other):
        # merging a registry into itself changes the dict while it is iterated (RuntimeError in Python)
        return (not same(self._registry, other._registry)
                and (self._prefix is None or isinstance(self._prefix, str))
                # registered names are non-empty strings (Method.__init__ falls back to the function's name)
                and all(isinstance(n, str) and len(n) > 0 for n in other._registry))

    def invariant0_other_kept(self, other, xs, k):
        return contents_unchanged(other._registry)

    def invariant0_names(self, other, xs, k):
        g = _generic_name()
        q = qual(self._prefix, g)
        now = member(self._registry, q)
        return (_prefixed_state(k, now, at_entry(member(self._registry, q)), at_entry(member(other._registry, g)),
                                at_entry(_pos(other, g)))
                and (is_absent(now) or same(now.name, q)))

    def invariant0_foreign(self, other, xs, k):
        q = _generic_key()
        return not _foreign_key(self, q) or same(member(self._registry, q), at_entry(member(self._registry, q)))

    def requires_names_match(self, other):
        # registry invariant: every method is registered under its own name (for the arbitrary key of ensures_names)
        q = qual(self._prefix, _generic_name())
        m = member(self._registry, q)
        return is_absent(m) or same(m.name, q)

    def ensures_names(self, other, result):
        g = _generic_name()
        q = qual(self._prefix, g)
        now = member(self._registry, q)
        return (result is None
                and _prefixed_state(len(other._registry), now, old(member(self._registry, q)),
                                    old(member(other._registry, g)), old(_pos(other, g)))
                and (is_absent(now) or same(now.name, q)))

    def ensures_foreign(self, other, result):
        q = _generic_key()
        return not _foreign_key(self, q) or same(member(self._registry, q), old(member(self._registry, q)))

    def ensures_other_kept(self, other, result):
        return contents_as_old(other._registry)


# ------------------------------------------------------------------------------------------------ add_methods (C15)
from spec.prims import define, has_type


def _last_writer(k):
    """index of the LAST of the first k items of add_methods(*methods) that registers the generic key (-1: none).  An
    uninterpreted function with a recursive definition whose instances (`define`) are stated along the induction: the
    explicit witness of "some item registered this key, and no later one did" - no existential reaches the solver"""
    return ufvt('c15_last_writer', 'int', k)


def _item_key(self, m):
    # C15: a Method is registered under its own name, a plain function under prefix + '.' + __name__
    if isinstance(m, Method):
        return m.name
    if has_type(m, '=UserMethod'):
        return qual(self._prefix, m.__name__)
    return None


def _written_by(now, m, q):
    if isinstance(m, Method):
        return same(now, m)
    return isinstance(now, Method) and same(now.method, m) and same(now.name, q)


def _after_items(self, xs, k, q, now, before, inductive):
    if inductive:
        define(_last_writer(0) == -1)
        if k > 0:
            define(_last_writer(k) == (k - 1 if _item_key(self, xs[k - 1]) == q else _last_writer(k - 1)))
    j = _last_writer(k)
    if j == -1:
        return same(now, before)
    return 0 <= j and j < k and _item_key(self, xs[j]) == q and _written_by(now, xs[j], q)


@contract('pjrpc.server.dispatcher:MethodRegistry.add_methods@c15', props=['C15'])
class RegistryAddMethods:
    """C15: after add_methods(*methods) an ARBITRARY key q (hand-skolemised universal) is exactly what it was unless one of
    the items registers it - a Method under its own name, a plain function under prefix + '.' + __name__ - and then it holds
    what the LAST such item put there (a later registration replaces an earlier one).
    (A proof-only variant `@c15`: at its call site in MethodRegistry.add the function stays inlined, so that add keeps its
    stronger single-key postcondition.)"""
    types = {'self': 'pjrpc.server.dispatcher:MethodRegistry', 'methods': '=tuple'}
    raises_only = ()
    modifies = ('$containers', '*.__pjrpc_meta__')
    cross_check = False
    loop0 = {'modifies': ['$containers', '*.__pjrpc_meta__'], 'index': 'k'}

    def requires_items(self, methods):
        return ((self._prefix is None or isinstance(self._prefix, str))
                and all((isinstance(m, Method) and isinstance(m.name, str))
                        or (has_type(m, '=UserMethod') and len(m.__name__) > 0) for m in methods))

    def invariant0_items_kept(self, methods, xs, k):
        # (the coarse loop frame $containers forgets the contents of every pre-existing container, the argument tuple too)
        return contents_unchanged(methods)

    def invariant0_key(self, methods, xs, k):
        q = _generic_key()
        return _after_items(self, xs, k, q, member(self._registry, q), at_entry(member(self._registry, q)), True)

    def ensures_key(self, methods, result):
        q = _generic_key()
        ms = old(tuple(methods))            # the items as passed (tuples are immutable; the coarse frame forgets that)
        return result is None and _after_items(self, ms, len(ms), q, member(self._registry, q),
                                               old(member(self._registry, q)), False)
