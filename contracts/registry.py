"""Sidecar contracts for the method registry of pjrpc/server/dispatcher.py (C15)."""
from pyvc.api import contract
from spec.prims import class_is, dict_is_update, is_absent, member, old, same

from pjrpc.server.dispatcher import Method


def qual(prefix, name):
    """the registered name: the registry prefix and the method name joined by a dot (no prefix: the name itself)"""
    return prefix + '.' + name if prefix else name


@contract('pjrpc.server.dispatcher:MethodRegistry._add_method', props=['C15'])
class RegistryAddMethod:
    types = {'self': 'pjrpc.server.dispatcher:MethodRegistry', 'method': 'pjrpc.server.dispatcher:Method'}
    raises_only = ()
    modifies = ('$dict(self._registry)',)

    def requires_name(self, method):
        return isinstance(method.name, str)

    def ensures_view(self, method, result):
        # C15: reachable under exactly method.name; a later registration replaces an earlier one; nothing else changes
        return result is None and dict_is_update(self._registry, method.name, method)


@contract('pjrpc.server.dispatcher:Method.__init__', props=['C15', 'C04'])
class MethodInit:
    types = {'self': 'pjrpc.server.dispatcher:Method', 'method': '=UserMethod', 'name': 'opt:str', 'context': 'opt:str',
             'positional': 'bool'}
    raises_only = ()
    modifies = ('self.method', 'self.name', 'self.context', 'self.positional', 'self.validator', 'self.validator_args',
                'method.__pjrpc_meta__', '$dict(method.__pjrpc_meta__)')
    cross_check = False

    def requires_fn(self, method, name, context, positional):
        return isinstance(method.__name__, str) and (
            not hasattr(method, '__pjrpc_meta__') or isinstance(method.__pjrpc_meta__, dict))

    def ensures_fields(self, method, name, context, positional, result):
        # C15: the explicit name or the function's own name
        return (same(self.method, method) and same(self.name, name if name else method.__name__)
                and same(self.context, context) and same(self.positional, positional))


from spec.prims import dict_same_except


@contract('pjrpc.server.dispatcher:MethodRegistry.add', props=['C15'])
class RegistryAdd:
    types = {'self': 'pjrpc.server.dispatcher:MethodRegistry', 'maybe_method': '=UserMethod', 'name': 'opt:str',
             'context': 'opt:str', 'positional': 'bool'}
    raises_only = ()
    modifies = ('$dict(self._registry)', 'maybe_method.__pjrpc_meta__', '$dict(maybe_method.__pjrpc_meta__)')
    cross_check = False

    def requires_fn(self, maybe_method, name, context, positional):
        return (isinstance(maybe_method.__name__, str) and len(maybe_method.__name__) > 0
                and (self._prefix is None or isinstance(self._prefix, str))
                and (not hasattr(maybe_method, '__pjrpc_meta__') or (
                    isinstance(maybe_method.__pjrpc_meta__, dict)
                    and not same(maybe_method.__pjrpc_meta__, self._registry))))

    def ensures_registered(self, maybe_method, name, context, positional, result):
        # C15: the set of callable names changes by exactly one key: the explicit name or the function's own
        # name, preceded by the registry prefix; the entry wraps exactly this function
        key = qual(self._prefix, name if name else maybe_method.__name__)
        m = member(self._registry, key)
        return (same(result, maybe_method) and dict_same_except(self._registry, key)
                and isinstance(m, Method) and same(m.method, maybe_method) and same(m.name, key)
                and same(m.context, context) and same(m.positional, positional))


@contract('pjrpc.server.dispatcher:MethodRegistry.get', props=['C15'])
class RegistryGet:
    types = {'self': 'pjrpc.server.dispatcher:MethodRegistry', 'item': 'str'}
    raises_only = ()

    def ensures_lookup(self, item, result):
        # C15: any name that was not registered yields nothing (the dispatcher turns that into -32601, see C03)
        m = member(self._registry, item)
        return (result is None) if is_absent(m) else same(result, m)
