"""C20: the pytest mocker answers as configured - round-robin, once, recorded.

Abstract view of the mocker: patches(endpoint, version, method) = the LIST stored under
self._matches[endpoint][(version, method)] (absent = not patched); recorded(endpoint, version, method) = the mock
stored under self._calls[endpoint][(version, method)]; a call of that mock is an event of the ghost trace."""
from pyvc.api import contract
from spec.prims import (ev_outcome, dict_eq, class_is, ev_args, ev_callee, ev_kind, ev_kwargs, ev_value, is_absent, member, old, same, seq_same,
                        seq_concat, tlen)

from pjrpc.common.common import UNSET
from pjrpc.common.exceptions import JsonRpcError, MethodNotFoundError
from pjrpc.common.v20 import Response


def patches(mocker, endpoint, version, method_name):
    ep = member(mocker._matches, endpoint)
    if is_absent(ep):
        return ep
    return member(ep, (version, method_name))


def match_ok(m):
    """what Match.__init__ (called by add / replace with id=, result=, error=) establishes, plus a sane configuration:
    a patch answers with a callback, or with exactly one of result / error"""
    d = m.response_data
    if not (isinstance(m.once, bool) and isinstance(d, dict)):
        return False
    if is_absent(member(d, 'id')) or is_absent(member(d, 'result')) or is_absent(member(d, 'error')):
        return False
    pid = member(d, 'id')
    if not (pid is None or (isinstance(pid, (int, str)) and not isinstance(pid, bool))):
        return False
    if m.callback is not None:
        return True
    r, e = member(d, 'result'), member(d, 'error')
    return (r is UNSET) != (e is UNSET) and (e is UNSET or isinstance(e, JsonRpcError))


def mocker_ok(m, endpoint):
    """representation invariant kept by add / remove / _cleanup_matches for the endpoint in question: the endpoint is
    patched (its map exists) and no stored patch list is empty"""
    ep = member(m._matches, endpoint)
    return not is_absent(ep) and not same(m._matches, m._calls)


def unpatched(ps):
    """no patch is queued for the method: nothing registered, or an empty queue"""
    return is_absent(ps) or len(ps) == 0


def first_of(xs):
    return xs[0]


def tail_of(xs):
    return xs[1:]


@contract('pjrpc.client.integrations.pytest:PjRpcMocker._match_request', props=['C20'])
class MatchRequest:
    types = {'self': 'pjrpc.client.integrations.pytest:PjRpcMocker', 'endpoint': 'str', 'version': 'str',
             'method_name': 'str', 'params': 'opt:list|dict', 'id': 'opt:int|str'}
    raises_only = ('Exception',)        # what a user callback raises (ensures_on_Exception: it WAS a callback)
    result_type = '=pjrpc.common.v20:Response'
    modifies = ('$trace', '$containers')      # the nested patch / call maps and their lists; no attribute changes
    cross_check = False

    def requires_patched_endpoint(self, endpoint, version, method_name, params, id):
        ps = patches(self, endpoint, version, method_name)
        if not (mocker_ok(self, endpoint) and not isinstance(id, bool)):
            return False
        # the queue may be absent, EMPTY (left behind by a failed replace()) or hold well-formed patches
        return is_absent(ps) or all(match_ok(m) for m in ps)

    def ensures_on_Exception(self, endpoint, version, method_name, params, id, exc):
        # the only exceptions are those a patch's CALLBACK raised: the last recorded event is that raising call
        n = tlen()
        used = old(first_of(patches(self, endpoint, version, method_name))) if not old(unpatched(patches(self, endpoint, version, method_name))) else None
        return (used is not None and used.callback is not None and n > old(tlen()) and ev_kind(n - 1) == 'call'
                and same(ev_callee(n - 1), used.callback) and ev_outcome(n - 1) == 'raise' and same(ev_value(n - 1), exc))

    def ensures_unpatched_method(self, endpoint, version, method_name, params, id, result):
        # C20: a method that is not patched on a patched endpoint gets -32601; nothing is recorded or changed
        if not old(unpatched(patches(self, endpoint, version, method_name))):
            return True
        return (same(result._id, id) and isinstance(result._error, MethodNotFoundError) and result._result is UNSET
                and tlen() == old(tlen()))

    def ensures_reply_carries_request_id(self, endpoint, version, method_name, params, id, result):
        # C20: the reply carries the request id (a call has an id: int or str, any value)
        return id is None or same(result._id, id)

    # ---- the state-machine part (patched method): round-robin, once, recorded, configured reply
    def ensures_rotation(self, endpoint, version, method_name, params, id, result):
        if old(unpatched(patches(self, endpoint, version, method_name))):
            return True
        # C20: the first patch answers; it goes to the back of the queue unless it is a `once` patch, which is dropped
        before = old(tuple(patches(self, endpoint, version, method_name)))
        used = first_of(before)
        now = patches(self, endpoint, version, method_name)
        if old(first_of(patches(self, endpoint, version, method_name)).once):
            if len(before) == 1:
                return is_absent(now)                       # nothing left: the method is not patched any more
            return not is_absent(now) and seq_same(now, tail_of(before))
        return not is_absent(now) and seq_same(now, seq_concat(tail_of(before), (used,)))

    def ensures_reply(self, endpoint, version, method_name, params, id, result):
        if old(unpatched(patches(self, endpoint, version, method_name))):
            return True
        # C20: configured result / error of the patch that answered (no callback), under the request id
        used = old(first_of(patches(self, endpoint, version, method_name)))
        if used.callback is not None:
            return True
        d = used.response_data
        return (same(result._result, member(d, 'result')) and same(result._error, member(d, 'error'))
                and same(result._id, id if id is not None else member(d, 'id')))

    def ensures_callback_reply(self, endpoint, version, method_name, params, id, result):
        if old(unpatched(patches(self, endpoint, version, method_name))):
            return True
        # C20: with a callback the reply carries the callback value (the last event) under the request id
        used = old(first_of(patches(self, endpoint, version, method_name)))
        if used.callback is None:
            return True
        n = tlen()
        return (same(result._id, id) and result._error is UNSET and ev_kind(n - 1) == 'call'
                and same(ev_callee(n - 1), used.callback) and same(result._result, ev_value(n - 1)))

    def ensures_recorded(self, endpoint, version, method_name, params, id, result):
        if old(unpatched(patches(self, endpoint, version, method_name))):
            return True
        # C20: the call is recorded under its endpoint and method: the mock stored there was called with the params
        rec = member(member(self._calls, endpoint), (version, method_name))
        b = old(tlen())
        if is_absent(rec):
            return False
        # event b is the creation of a MagicMock (always evaluated), event b+1 the recording call
        if not (tlen() >= b + 2 and ev_kind(b) == 'call:MagicMock' and ev_kind(b + 1) == 'call' and same(ev_callee(b + 1), rec)):
            return False
        if isinstance(params, (list, tuple)):
            return seq_same(ev_args(b + 1), params) and len(ev_kwargs(b + 1)) == 0
        if isinstance(params, dict):
            return len(ev_args(b + 1)) == 0 and dict_eq(ev_kwargs(b + 1), params)
        return len(ev_args(b + 1)) == 1 and same(ev_args(b + 1)[0], params)


from spec.prims import dict_same_except


def patch_is(m, endpoint, version, method_name, once, callback, id, result, error):
    """the Match object add / replace build from their arguments"""
    d = m.response_data
    return (isinstance(m, Match) and same(m.endpoint, endpoint) and same(m.version, version)
            and same(m.method_name, method_name) and same(m.once, once) and same(m.callback, callback)
            and isinstance(d, dict) and len(d) == 3 and same(member(d, 'id'), id) and same(member(d, 'result'), result)
            and same(member(d, 'error'), error))


from pjrpc.client.integrations.pytest import Match


@contract('pjrpc.client.integrations.pytest:PjRpcMocker.add', props=['C20'])
class MockerAdd:
    types = {'self': 'pjrpc.client.integrations.pytest:PjRpcMocker', 'endpoint': 'str', 'method_name': 'str',
             'result': 'any', 'error': 'any', 'id': 'opt:int|str', 'version': 'str', 'once': 'bool',
             'callback': 'opt:=UserMockCallback'}
    raises_only = ()
    modifies = ('$containers',)
    cross_check = False

    def requires_separate_maps(self, endpoint, method_name, result, error, id, version, once, callback):
        # representation invariant: the outer map, its per-endpoint maps and the call records are different objects
        return not same(self._matches, self._calls) and not same(member(self._matches, endpoint), self._matches)

    def ensures_length(self, endpoint, method_name, result, error, id, version, once, callback):
        # C20: patches for one (endpoint, method) are kept in the order of their addition: one more than before
        now = patches(self, endpoint, version, method_name)
        if is_absent(now):
            return False
        n0 = 0 if is_absent(old(patches(self, endpoint, version, method_name))) else old(len(patches(self, endpoint, version, method_name)))
        return len(now) == n0 + 1

    def ensures_new_one_last(self, endpoint, method_name, result, error, id, version, once, callback):
        now = patches(self, endpoint, version, method_name)
        return patch_is(now[len(now) - 1], endpoint, version, method_name, once, callback, id, result, error)

    def ensures_earlier_ones_keep_their_order(self, endpoint, method_name, result, error, id, version, once, callback):
        if old(unpatched(patches(self, endpoint, version, method_name))):
            return True
        now = patches(self, endpoint, version, method_name)
        return seq_same(now, seq_concat(old(tuple(patches(self, endpoint, version, method_name))), (now[len(now) - 1],)))

    def ensures_other_patches_untouched(self, endpoint, method_name, result, error, id, version, once, callback):
        # whole-view postcondition: every other endpoint and every other method of this endpoint keeps its patches
        if not dict_same_except(self._matches, endpoint):
            return False
        ep0 = old(member(self._matches, endpoint))
        if is_absent(ep0):
            return len(member(self._matches, endpoint)) == 1
        return same(member(self._matches, endpoint), ep0) and dict_same_except(ep0, (version, method_name))


@contract('pjrpc.client.integrations.pytest:PjRpcMocker.replace', props=['C20'])
class MockerReplace:
    types = {'self': 'pjrpc.client.integrations.pytest:PjRpcMocker', 'endpoint': 'str', 'method_name': 'str',
             'result': 'any', 'error': 'any', 'id': 'opt:int|str', 'version': 'str', 'once': 'bool',
             'callback': 'opt:=UserMockCallback', 'idx': 'int'}
    raises_only = ('IndexError',)
    modifies = ('$containers',)
    cross_check = False

    def requires_separate_maps(self, endpoint, method_name, result, error, id, version, once, callback, idx):
        return (not same(self._matches, self._calls) and not same(member(self._matches, endpoint), self._matches)
                and not isinstance(idx, bool))

    def raises_IndexError_iff(self, endpoint, method_name, result, error, id, version, once, callback, idx):
        # only an existing patch can be replaced (negative positions count from the end, as for any list)
        ps = patches(self, endpoint, version, method_name)
        n = 0 if is_absent(ps) else len(ps)
        return not (-n <= idx < n)

    def ensures_replaced(self, endpoint, method_name, result, error, id, version, once, callback, idx):
        # C20: the patch at that position of the queue is the new one; the queue keeps its length
        now = patches(self, endpoint, version, method_name)
        n = old(len(patches(self, endpoint, version, method_name)))
        i = idx if idx >= 0 else n + idx
        return (not is_absent(now) and len(now) == n
                and patch_is(now[i], endpoint, version, method_name, once, callback, id, result, error))

    # NOT proved (solver timeout on the sequence update at a symbolic position): that every OTHER patch of the queue stays
    # where it was.


def endpoint_unpatched(m, endpoint):
    """no patch is registered for the endpoint: no map, or an empty one (left behind by a failed remove())"""
    ep = member(m._matches, endpoint)
    return is_absent(ep) or len(ep) == 0


@contract('pjrpc.client.integrations.pytest:PjRpcMocker._on_request', props=['C20'])
class MockerOnRequest:
    """C20: an endpoint without patches is passed through to the real transport (once, same arguments, its answer
    returned unchanged) or refused with ConnectionRefusedError, as configured - and nothing else happens."""
    types = {'self': 'pjrpc.client.integrations.pytest:PjRpcMocker', 'origin_self': '=UserClientObject', 'request_text': 'str',
             'is_notification': 'bool', 'kwargs': '=dict'}
    raises_only = ('ConnectionRefusedError', 'Exception')
    modifies = ('$trace', '$containers')
    cross_check = False
    loop0 = {'ghosts': ['trace'], 'modifies': ['$containers']}
    never_returns_ok = True

    def requires_started(self, origin_self, request_text, is_notification, kwargs):
        # scope of this contract: requests to an endpoint WITHOUT patches (the patched branches - single request and
        # element-wise batch - hand each element to _match_request, which is under its own contract; their composition
        # needs the well-formedness of every queue of the endpoint as an invariant and is not proved here)
        return (self._patcher is not None and not same(self._matches, self._calls)
                and endpoint_unpatched(self, origin_self._endpoint))

    def invariant0_true(self, origin_self):
        return True

    def raises_ConnectionRefusedError_iff(self, origin_self, request_text, is_notification, kwargs):
        return endpoint_unpatched(self, origin_self._endpoint) and not self._passthrough

    def ensures_on_ConnectionRefusedError(self, origin_self, request_text, is_notification, kwargs, exc):
        return tlen() == old(tlen())

    def ensures_passthrough(self, origin_self, request_text, is_notification, kwargs, result):
        if not (old(endpoint_unpatched(self, origin_self._endpoint)) and self._passthrough):
            return True
        b = old(tlen())
        return (tlen() == b + 1 and ev_kind(b) == 'call:temp_original' and same(ev_callee(b), self._patcher)
                and len(ev_args(b)) == 3 and same(ev_args(b)[0], origin_self) and same(ev_args(b)[1], request_text)
                and same(ev_args(b)[2], is_notification) and dict_eq(ev_kwargs(b), kwargs) and same(result, ev_value(b)))


@contract('pjrpc.client.integrations.pytest:PjRpcMocker.remove', props=['C20'])
class MockerRemove:
    types = {'self': 'pjrpc.client.integrations.pytest:PjRpcMocker', 'endpoint': 'str', 'method_name': 'opt:str',
             'version': 'str'}
    raises_only = ('KeyError',)
    modifies = ('$containers',)
    cross_check = False

    def requires_separate_maps(self, endpoint, method_name, version):
        return not same(self._matches, self._calls) and not same(member(self._matches, endpoint), self._matches)

    def raises_KeyError_iff(self, endpoint, method_name, version):
        # only what is registered can be removed
        if method_name is None:
            return is_absent(member(self._matches, endpoint))
        return is_absent(patches(self, endpoint, version, method_name))

    def ensures_removed(self, endpoint, method_name, version, result):
        # C20: afterwards the method (or the whole endpoint) is not patched any more; what was removed is handed back
        if method_name is None:
            return is_absent(member(self._matches, endpoint)) and same(result, old(member(self._matches, endpoint)))
        return (is_absent(patches(self, endpoint, version, method_name))
                and same(result, old(patches(self, endpoint, version, method_name))))

    def ensures_others_untouched(self, endpoint, method_name, version, result):
        # whole-view: every other endpoint keeps its map; when one method is removed the other methods of the endpoint
        # keep their queues (an endpoint whose last method was removed is dropped altogether)
        if not dict_same_except(self._matches, endpoint):
            return False
        if method_name is None:
            return True
        ep0 = old(member(self._matches, endpoint))
        return dict_same_except(ep0, (version, method_name))
