"""Sidecar contracts for pjrpc/common/exceptions.py."""
from pyvc.api import contract
from spec.prims import class_is, implies, is_absent, member, old, same
from spec.jsonrpc import valid_error_obj

from pjrpc.common.common import UNSET
from pjrpc.common.exceptions import JsonRpcError, JsonRpcErrorMeta

# typing of process-global containers (established by JsonRpcErrorMeta.__new__, assumed on reads)
GLOBAL_DICT_TYPES = {
    ('pjrpc.common.exceptions:JsonRpcErrorMeta', '__errors_mapping__'): 'type<=pjrpc.common.exceptions:JsonRpcError',
}


# A-classes: user subclasses of JsonRpcError declare an int code and a str message, or leave them None
CLASS_ATTR_TYPES = {
    ('pjrpc.common.exceptions:JsonRpcError', 'code'): 'opt:int',
    ('pjrpc.common.exceptions:JsonRpcError', 'message'): 'opt:str',
}


# A-classes: the protocol version constant of the message classes is not overridden
CLASS_ATTR_FINAL = [
    ('pjrpc.common.v20:Request', 'version'), ('pjrpc.common.v20:Response', 'version'),
    ('pjrpc.common.v20:BatchRequest', 'version'), ('pjrpc.common.v20:BatchResponse', 'version'),
]


@contract('pjrpc.common.exceptions:JsonRpcError.from_json', props=['C06', 'C05'])
class JsonRpcErrorFromJson:
    types = {'json_data': 'json', 'cls': 'type<=pjrpc.common.exceptions:JsonRpcError'}
    raises_only = ('pjrpc.common.exceptions:DeserializationError',)
    result_type = 'pjrpc.common.exceptions:JsonRpcError'
    clause_props = {'ensures_class': ['C05']}

    def returns_iff(cls, json_data):
        return valid_error_obj(json_data)

    def ensures_fields(cls, json_data, result):
        d = member(json_data, 'data')
        return (
            same(result.code, member(json_data, 'code'))
            and same(result.message, member(json_data, 'message'))
            and (same(result.data, d) if not is_absent(d) else result.data is UNSET)
        )

    def ensures_class(cls, json_data, result):
        # C05: an error deserialises to the class registered for its code, else the supplied base class
        return class_is(result, JsonRpcErrorMeta.__errors_mapping__.get(member(json_data, 'code'), cls))


@contract('pjrpc.common.exceptions:JsonRpcError.__init__', props=['C03', 'C05', 'C06'])
class JsonRpcErrorInit:
    """C03/C05: an error object carries exactly the code, message and data it was built with (0 and '' are
    values, not 'missing'); only a missing (None) argument falls back to the class default."""
    types = {'self': 'pjrpc.common.exceptions:JsonRpcError', 'code': 'opt:int', 'message': 'opt:str', 'data': 'any'}
    raises_only = ('AssertionError',)
    modifies = ('self.code', 'self.message', 'self.data', 'self.args')

    def returns_iff(self, code, message, data):
        # constructing fails only when neither the argument nor the class provides a code / message
        return (code is not None or type(self).code is not None) and (message is not None or type(self).message is not None)

    def ensures_fields(self, code, message, data, result):
        return (
            (same(self.code, code) if code is not None else same(self.code, type(self).code))
            and (same(self.message, message) if message is not None else same(self.message, type(self).message))
            and same(self.data, data)
        )
