"""Sidecar contracts for pjrpc/server/dispatcher.py."""
from pyvc.api import contract
from spec.prims import class_is, ev_value, implies, is_absent, member, old, same, tlen, uf, ufv
from spec.server import config_ok, method_failed, method_returned, ran_once, registered, request_ok
from spec.user import error_ok

from pjrpc.common.common import UNSET
from pjrpc.common.exceptions import (InternalError, InvalidParamsError, InvalidRequestError, JsonRpcError,
                                     MethodNotFoundError, ParseError, ServerError)
from pjrpc.common.v20 import Request, Response


@contract('pjrpc.server.dispatcher:Method.bind', also=('pjrpc.server.dispatcher:ViewMethod.bind',), props=['C04'])
class MethodBind:
    """ASSUMED for now (C04 replaces it by a proved contract over the inspect binding spec): binding
    succeeds iff the uninterpreted predicate binds(method, params) holds; the result is a callable whose
    invocation is the user's method (an abstract callable of kind UserMethod)."""
    assumed = True
    types = {'self': 'pjrpc.server.dispatcher:Method', 'params': 'opt:json', 'context': 'any'}
    raises_only = ('pjrpc.server.validators.base:ValidationError',)
    result_type = '=UserMethod'

    def returns_iff(self, params, context):
        return uf('binds', self, params)

    def ensures_target(self, params, context, result):
        return same(ufv('bound_of', result), self)


@contract('pjrpc.server.dispatcher:Dispatcher._handle_rpc_method',
          also=('pjrpc.server.dispatcher:AsyncDispatcher._handle_rpc_method',),
          props=['C03', 'C02', 'C01', 'C15', 'C11'])
class HandleRpcMethod:
    types = {'self': 'pjrpc.server.dispatcher:BaseDispatcher', 'method_name': 'str', 'params': 'opt:json',
             'context': 'any'}
    raises_only = ('pjrpc.common.exceptions:JsonRpcError',)
    modifies = ('$trace',)
    result_type = 'encodable'

    def ensures_ran_once(self, method_name, params, context, result):
        return method_returned(self, method_name, params, old(tlen()), result)

    def ensures_on_JsonRpcError(self, method_name, params, context, exc):
        return method_failed(self, method_name, params, old(tlen()), exc)


@contract('pjrpc.server.dispatcher:Dispatcher._handle_rpc_request',
          also=('pjrpc.server.dispatcher:AsyncDispatcher._handle_rpc_request',),
          props=['C02', 'C03', 'C04', 'C01', 'C11'])
class HandleRpcRequest:
    types = {'self': 'pjrpc.server.dispatcher:BaseDispatcher', 'request': '=pjrpc.common.v20:Request',
             'context': 'any'}
    raises_only = ('pjrpc.common.exceptions:JsonRpcError',)
    modifies = ('$trace',)

    def requires_config(self, request, context):
        return config_ok(self) and request_ok(request)

    def ensures_executed(self, request, context, result):
        return method_returned(self, request._method, request._params, old(tlen()), ev_value(tlen() - 1))

    def ensures_response(self, request, context, result):
        # C02: a notification is never answered; a call is answered with the identical id and the
        # method's return value unchanged (C04)
        if request._id is None:
            return result is UNSET
        return (isinstance(result, Response) and class_is(result, Response) and same(result._id, request._id)
                and same(result._result, ev_value(tlen() - 1)) and result._error is UNSET)

    def ensures_on_JsonRpcError(self, request, context, exc):
        return method_failed(self, request._method, request._params, old(tlen()), exc)
