"""Sidecar contracts for pjrpc/server/dispatcher.py."""
from pyvc.api import contract
from spec.prims import (at_entry, class_is, ev_value, implies, is_absent, member, old, same, seq_concat, seq_same, tlen,
                        uf, ufv)
from spec.server import (config_ok, handler_event_ok, handlers_for, method_failed, method_returned, ran_once,
                         registered, request_ok)
from spec.user import error_ok

from pjrpc.common.common import UNSET
from pjrpc.common.exceptions import (InternalError, InvalidParamsError, InvalidRequestError, JsonRpcError,
                                     MethodNotFoundError, ParseError, ServerError)
from pjrpc.common.v20 import Request, Response


@contract('pjrpc.server.dispatcher:Method.bind', also=('pjrpc.server.dispatcher:ViewMethod.bind',), props=['C04'])
class MethodBind:
    """ASSUMED for now (C04 replaces it by a proved contract over the inspect binding spec): binding
    succeeds iff the uninterpreted predicate binds(method, params) holds; the result is a callable whose
    invocation is the user's method (an abstract callable of kind UserMethod)."""
    assumed = True
    types = {'self': 'pjrpc.server.dispatcher:Method', 'params': 'opt:json', 'context': 'any'}
    raises_only = ('pjrpc.server.validators.base:ValidationError',)
    result_type = '=UserMethod'

    def returns_iff(self, params, context):
        return uf('binds', self, params)

    def ensures_target(self, params, context, result):
        return same(ufv('bound_of', result), self)


@contract('pjrpc.server.dispatcher:Dispatcher._handle_rpc_method',
          also=('pjrpc.server.dispatcher:AsyncDispatcher._handle_rpc_method',),
          props=['C03', 'C02', 'C01', 'C15', 'C11'])
class HandleRpcMethod:
    types = {'self': 'pjrpc.server.dispatcher:BaseDispatcher', 'method_name': 'str', 'params': 'opt:json',
             'context': 'any'}
    raises_only = ('pjrpc.common.exceptions:JsonRpcError',)
    modifies = ('$trace',)
    cross_check = False     # inputs include abstract user callables: no native cross-check yet
    result_type = 'encodable'

    def ensures_ran_once(self, method_name, params, context, result):
        return method_returned(self, method_name, params, old(tlen()), result)

    def ensures_on_JsonRpcError(self, method_name, params, context, exc):
        return method_failed(self, method_name, params, old(tlen()), exc)


@contract('pjrpc.server.dispatcher:Dispatcher._handle_rpc_request',
          also=('pjrpc.server.dispatcher:AsyncDispatcher._handle_rpc_request',),
          props=['C02', 'C03', 'C04', 'C01', 'C11'])
class HandleRpcRequest:
    types = {'self': 'pjrpc.server.dispatcher:BaseDispatcher', 'request': '=pjrpc.common.v20:Request',
             'context': 'any'}
    raises_only = ('pjrpc.common.exceptions:JsonRpcError',)
    modifies = ('$trace',)
    cross_check = False     # inputs include abstract user callables: no native cross-check yet

    def requires_config(self, request, context):
        return config_ok(self) and request_ok(request)

    def ensures_executed(self, request, context, result):
        return method_returned(self, request._method, request._params, old(tlen()), ev_value(tlen() - 1))

    def ensures_response(self, request, context, result):
        # C02: a notification is never answered; a call is answered with the identical id and the
        # method's return value unchanged (C04)
        if request._id is None:
            return result is UNSET
        return (isinstance(result, Response) and class_is(result, Response) and same(result._id, request._id)
                and same(result._result, ev_value(tlen() - 1)) and result._result is not UNSET
                and result._error is UNSET)

    def ensures_on_JsonRpcError(self, request, context, exc):
        return method_failed(self, request._method, request._params, old(tlen()), exc)


@contract('pjrpc.server.dispatcher:Dispatcher._handle_request',
          also=('pjrpc.server.dispatcher:AsyncDispatcher._handle_request',),
          props=['C01', 'C02', 'C03', 'C12', 'C11'])
class HandleRequest:
    types = {'self': 'pjrpc.server.dispatcher:BaseDispatcher', 'request': '=pjrpc.common.v20:Request',
             'context': 'any'}
    raises_only = ()            # C01: never raises (A-user: error handlers do not raise)
    modifies = ('$trace',)
    cross_check = False     # inputs include abstract user callables: no native cross-check yet
    loop0 = {'ghosts': ['trace'], 'index': 'k'}

    def requires_config(self, request, context):
        return config_ok(self) and request_ok(request)

    # ---- loop over it.chain(generic handlers, handlers for the raised error's code)  (C12)
    def invariant0_chain(self, request, context, error, xs, k):
        e0 = at_entry(error)
        return seq_same(xs, seq_concat(handlers_for(self, None), handlers_for(self, e0.code)))

    def invariant0_events(self, request, context, error, xs, k):
        # every iteration appends exactly one event: the call of the k-th handler with the request, the
        # context and the error returned by the previous handler (the raised error first); `error` is
        # what the last handler returned.  (Stated for the latest event; it is re-proved at every k.)
        b = at_entry(tlen())
        e0 = at_entry(error)
        if tlen() != b + k:
            return False
        if k == 0:
            return same(error, e0)
        prev = e0 if k == 1 else ev_value(b + k - 2)
        return handler_event_ok(b + k - 1, xs[k - 1], request, context, prev) and same(error, ev_value(b + k - 1))

    def invariant0_error(self, request, context, error, xs, k):
        return isinstance(error, JsonRpcError) and error_ok(error)

    # ---- postconditions
    def ensures_response(self, request, context, result):
        # C02: notifications are never answered (success or failure); a call gets the identical id
        if request._id is None:
            return result is UNSET
        return (isinstance(result, Response) and class_is(result, Response) and same(result._id, request._id)
                and ((result._result is UNSET) != (result._error is UNSET))
                and (result._error is UNSET or (isinstance(result._error, JsonRpcError) and error_ok(result._error))))

    def ensures_success(self, request, context, result):
        # C12: handlers never run for successful requests; C04: the return value is the result unchanged
        if request._id is None or result._error is not UNSET:
            return True
        return method_returned(self, request._method, request._params, old(tlen()), result._result)

    def ensures_failure_without_handlers(self, request, context, result):
        # C03 end to end: with no error handlers configured the error sent is the one of the failure class
        if request._id is None or result._error is UNSET:
            return True
        if len(self._error_handlers) != 0:
            return True
        return method_failed(self, request._method, request._params, old(tlen()), result._error)
