"""Sidecar contracts for pjrpc/server/dispatcher.py."""
from pyvc.api import contract
from spec.prims import bound_method
from spec.prims import (at_entry, class_is, ev_value, implies, is_absent, member, old, same, seq_concat, seq_same, tlen,
                        uf, ufv)
from spec.server import (config_ok, handler_event_ok, handlers_for, method_failed, method_returned, ran_once,
                         registered, request_ok)
from spec.user import error_ok

from pjrpc.common.common import UNSET
from pjrpc.common.exceptions import (InternalError, InvalidParamsError, InvalidRequestError, JsonRpcError,
                                     MethodNotFoundError, ParseError, ServerError)
from pjrpc.common.v20 import BatchResponse, Request, Response


@contract('pjrpc.server.dispatcher:Method.bind', also=('pjrpc.server.dispatcher:ViewMethod.bind',), props=['C04'])
class MethodBind:
    """ASSUMED for now (C04 replaces it by a proved contract over the inspect binding spec): binding
    succeeds iff the uninterpreted predicate binds(method, params) holds; the result is a callable whose
    invocation is the user's method (an abstract callable of kind UserMethod)."""
    assumed = True
    types = {'self': 'pjrpc.server.dispatcher:Method', 'params': 'opt:list|dict', 'context': 'any'}
    raises_only = ('pjrpc.server.validators.base:ValidationError',)
    result_type = '=UserMethod'

    def returns_iff(self, params, context):
        return uf('binds', self, params)

    def ensures_target(self, params, context, result):
        return same(ufv('bound_of', result), self)


@contract('pjrpc.server.dispatcher:Dispatcher._handle_rpc_method',
          also=('pjrpc.server.dispatcher:AsyncDispatcher._handle_rpc_method',),
          props=['C03', 'C02', 'C01', 'C15', 'C11'])
class HandleRpcMethod:
    types = {'self': 'pjrpc.server.dispatcher:BaseDispatcher', 'method_name': 'str', 'params': 'opt:list|dict',
             'context': 'any'}
    raises_only = ('pjrpc.common.exceptions:JsonRpcError',)
    clause_props = {'modifies': ['C13']}      # C13: nothing pre-existing is written, nothing is retained
    modifies = ('$trace',)
    cross_check = False     # inputs include abstract user callables: no native cross-check yet
    result_type = 'encodable'

    def ensures_ran_once(self, method_name, params, context, result):
        return method_returned(self, method_name, params, old(tlen()), result)

    def ensures_on_JsonRpcError(self, method_name, params, context, exc):
        return method_failed(self, method_name, params, old(tlen()), exc)


@contract('pjrpc.server.dispatcher:Dispatcher._handle_rpc_request',
          also=('pjrpc.server.dispatcher:AsyncDispatcher._handle_rpc_request',),
          props=['C02', 'C03', 'C04', 'C01', 'C11'])
class HandleRpcRequest:
    types = {'self': 'pjrpc.server.dispatcher:BaseDispatcher', 'request': '=pjrpc.common.v20:Request',
             'context': 'any'}
    raises_only = ('pjrpc.common.exceptions:JsonRpcError',)
    clause_props = {'modifies': ['C13']}      # C13: nothing pre-existing is written, nothing is retained
    modifies = ('$trace',)
    cross_check = False     # inputs include abstract user callables: no native cross-check yet

    def requires_config(self, request, context):
        return config_ok(self) and request_ok(request)

    def ensures_executed(self, request, context, result):
        return method_returned(self, request._method, request._params, old(tlen()), ev_value(tlen() - 1))

    def ensures_response(self, request, context, result):
        # C02: a notification is never answered; a call is answered with the identical id and the
        # method's return value unchanged (C04)
        if request._id is None:
            return result is UNSET
        return (isinstance(result, Response) and class_is(result, Response) and same(result._id, request._id)
                and same(result._result, ev_value(tlen() - 1)) and result._result is not UNSET
                and result._error is UNSET)

    def ensures_on_JsonRpcError(self, request, context, exc):
        return method_failed(self, request._method, request._params, old(tlen()), exc)


@contract('pjrpc.server.dispatcher:Dispatcher._handle_request',
          also=('pjrpc.server.dispatcher:AsyncDispatcher._handle_request',),
          props=['C01', 'C02', 'C03', 'C12', 'C11'])
class HandleRequest:
    types = {'self': 'pjrpc.server.dispatcher:BaseDispatcher', 'request': '=pjrpc.common.v20:Request',
             'context': 'any'}
    raises_only = ()            # C01: never raises (A-user: error handlers do not raise)
    clause_props = {'modifies': ['C13']}      # C13: nothing pre-existing is written, nothing is retained
    modifies = ('$trace',)
    cross_check = False     # inputs include abstract user callables: no native cross-check yet
    loop0 = {'ghosts': ['trace'], 'index': 'k'}

    def requires_config(self, request, context):
        return config_ok(self) and request_ok(request)

    def callsite_requires_through_the_chain(self, request, context):
        # C12: requests enter through the middleware chain (self._request_handler).  The library itself may call the
        # innermost handler directly only where it IS the whole chain (no middleware configured); with middlewares,
        # the innermost handler is reached from user middlewares only (outside the verified code)
        return same(self._request_handler, bound_method(self, '_handle_request'))

    # ---- loop over it.chain(generic handlers, handlers for the raised error's code)  (C12)
    def invariant0_chain(self, request, context, error, xs, k):
        e0 = at_entry(error)
        return seq_same(xs, seq_concat(handlers_for(self, None), handlers_for(self, e0.code)))

    def invariant0_events(self, request, context, error, xs, k):
        # every iteration appends exactly one event: the call of the k-th handler with the request, the
        # context and the error returned by the previous handler (the raised error first); `error` is
        # what the last handler returned.  (Stated for the latest event; it is re-proved at every k.)
        b = at_entry(tlen())
        e0 = at_entry(error)
        if tlen() != b + k:
            return False
        if k == 0:
            return same(error, e0)
        prev = e0 if k == 1 else ev_value(b + k - 2)
        return handler_event_ok(b + k - 1, xs[k - 1], request, context, prev) and same(error, ev_value(b + k - 1))

    def invariant0_error(self, request, context, error, xs, k):
        return isinstance(error, JsonRpcError) and error_ok(error)

    # ---- postconditions
    def ensures_response(self, request, context, result):
        # C02: notifications are never answered (success or failure); a call gets the identical id
        if request._id is None:
            return result is UNSET
        return (isinstance(result, Response) and class_is(result, Response) and same(result._id, request._id)
                and ((result._result is UNSET) != (result._error is UNSET))
                and (result._error is UNSET or (isinstance(result._error, JsonRpcError) and error_ok(result._error))))

    def ensures_success(self, request, context, result):
        # C12: handlers never run for successful requests; C04: the return value is the result unchanged
        if request._id is None or result._error is not UNSET:
            return True
        return method_returned(self, request._method, request._params, old(tlen()), result._result)

    def ensures_failure_without_handlers(self, request, context, result):
        # C03 end to end: with no error handlers configured the error sent is the one of the failure class
        if request._id is None or result._error is UNSET:
            return True
        if len(self._error_handlers) != 0:
            return True
        return method_failed(self, request._method, request._params, old(tlen()), result._error)


# ------------------------------------------------------------------------------------------------ dispatch (C01 C02 C03)
import json
from spec.prims import bound_method, gather_calls, has_type
from spec.server import code_of, wf_error_obj, wf_response_obj
from spec.jsonrpc import valid_request_obj
from pjrpc.server.dispatcher import AsyncDispatcher, JSONEncoder


def dispatcher_ok(d):
    """A-classes / A-user configuration of the dispatcher under which C01 is stated"""
    return (config_ok(d) and d._json_loader is json.loads and d._json_dumper is json.dumps
            and d._json_encoder is JSONEncoder and d._json_decoder is None
            and (d._max_batch_size is None or (isinstance(d._max_batch_size, int) and not isinstance(d._max_batch_size, bool)))
            and (same(d._request_handler, bound_method(d, '_handle_request'))
                 or has_type(d._request_handler, '=UserMiddleware')))


@contract('pjrpc.server.dispatcher:Dispatcher.dispatch', also=('pjrpc.server.dispatcher:AsyncDispatcher.dispatch',),
          props=['C01', 'C02', 'C03'])
class Dispatch:
    types = {'self': 'pjrpc.server.dispatcher:BaseDispatcher', 'request_text': 'str', 'context': 'any'}
    raises_only = ()            # C01: the dispatcher never raises
    modifies = ('$trace',)
    cross_check = False
    fast_feasibility = True
    # ASSUMED lemma (paper argument + bounded stand-in): the responses of an accepted batch carry the ids of
    # distinct requests in request order, so building the strict BatchResponse cannot find duplicate ids
    # of the per-element handler only the response shape is needed here (its trace clauses are proved for the
    # handler itself; inside a batch they would refer to an intermediate ghost state)
    callee_ensures_only = {'pjrpc.server.dispatcher:Dispatcher._handle_request': ['ensures_response']}
    assume_no_raise = {'pjrpc.common.v20:BatchResponse.__init__':
                       'response ids of an accepted batch are pairwise distinct (subsequence of distinct request ids)'}

    def requires_config(self, request_text, context):
        return dispatcher_ok(self)

    # ---- C02 inside a batch.  The batch branch is a filter over a map:
    #           responses = [handler(r) for r in batch]        (comprehension "handled"; gather(*...) / awaits in async)
    #           answered  = [x for x in responses if <kept>]    (comprehension "answered")
    # Pinned here, each for a GENERIC element: the map runs over exactly the accepted batch's requests, in order; each
    # produced element is UNSET for a notification and a Response with the identical id otherwise (chain without user
    # middlewares); the filter keeps an element exactly when it is not UNSET.  That a comprehension is an
    # order-preserving filter-map is the generator's semantics - together: every call is answered exactly once, in
    # request order, success or failure alike, and no notification is.
    comp_handled = {'elt_contains': '_request_handler'}
    comp_answered = {'has_if': True}
    clause_props = {'ensures_sequential_mode': ['C10'], 'modifies': ['C13'],
                    'comp_handled__source': ['C02', 'C01', 'C12'], 'comp_handled__element': ['C02', 'C01'],
                    'comp_answered__keeps': ['C02', 'C01']}

    def comp_handled__source(self, request_text, context, request, xs):
        return seq_same(xs, request._requests)

    def comp_handled__element(self, request_text, context, request, x, y):
        if not same(self._request_handler, bound_method(self, '_handle_request')):
            return True             # a user middleware may answer whatever it likes
        if x._id is None:
            return y is UNSET
        return isinstance(y, Response) and same(y._id, x._id)

    def comp_answered__keeps(self, request_text, context, x):
        return x is not UNSET

    def ensures_shape(self, request_text, context, result):
        # C01: nothing, or (response text, error codes)
        if result is None:
            return True
        return isinstance(result, tuple) and len(result) == 2 and isinstance(result[0], str) and isinstance(result[1], tuple)

    def ensures_document(self, request_text, context, result):
        # C01: the text is one response object or a NON-EMPTY array of them
        if result is None:
            return True
        doc = ufv('doc_of', result[0])
        return wf_response_obj(doc) or (isinstance(doc, list) and len(doc) > 0)

    def ensures_codes_single(self, request_text, context, result):
        # C01: the codes agree with the document (one per response object, 0 for a success)
        if result is None:
            return True
        doc = ufv('doc_of', result[0])
        if not isinstance(doc, dict):
            return True
        return len(result[1]) == 1 and same(result[1][0], code_of(doc))

    def ensures_sequential_mode(self, request_text, context, result):
        # C10: with concurrent batch execution switched off the asynchronous dispatcher never enters
        # asyncio.gather - the only place where element handlers can be in flight together; the elements are
        # awaited one after another in request order (a list comprehension over the request)
        if not isinstance(self, AsyncDispatcher):
            return True
        return self._concurrent_batch or gather_calls() == old(gather_calls())

    def ensures_rejected(self, request_text, context, result):
        # C03: text that is not JSON (incl. a text the loader rejects with a plain ValueError: integer literal beyond
        # the interpreter limit) -> -32700 with id null, as ONE response object, and nothing executed
        if uf('is_json_text', request_text) and not uf('has_huge_int_literal', request_text):
            return True
        doc = ufv('doc_of', result[0]) if result is not None else None
        return (result is not None and wf_response_obj(doc) and member(doc, 'id') is None
                and code_of(doc) == -32700 and tlen() == old(tlen()))

    def ensures_invalid_request(self, request_text, context, result):
        # C03: JSON that is neither a valid request object nor an array is answered by ONE -32600 response with id null
        # and nothing is executed
        if not (uf('is_json_text', request_text) and not uf('has_huge_int_literal', request_text)):
            return True
        v = ufv('parsed', request_text)
        if isinstance(v, (list, tuple)) or valid_request_obj(v):
            return True
        doc = ufv('doc_of', result[0]) if result is not None else None
        return (result is not None and wf_response_obj(doc) and member(doc, 'id') is None
                and code_of(doc) == -32600 and tlen() == old(tlen()))

    def ensures_invalid_batch(self, request_text, context, result):
        # C03: an array that is empty or has an invalid element is rejected AS A WHOLE: one -32600 response, id null,
        # nothing executed
        if not (uf('is_json_text', request_text) and not uf('has_huge_int_literal', request_text)):
            return True
        v = ufv('parsed', request_text)
        if not isinstance(v, list) or (len(v) > 0 and all(valid_request_obj(x) for x in v)):
            return True
        doc = ufv('doc_of', result[0]) if result is not None else None
        return (result is not None and wf_response_obj(doc) and member(doc, 'id') is None
                and code_of(doc) == -32600 and tlen() == old(tlen()))


# ------------------------------------------------------------------------------------------------ C12: the middleware chain
from spec.prims import define, is_partial, partial_args, partial_func, partial_kwargs


def wraps(d, p, j):
    """p is exactly functools.partial(d._middlewares[j], handler=h) for a chain h from position j + 1"""
    if not is_partial(p):
        return False
    kw = partial_kwargs(p)
    return (same(partial_func(p), d._middlewares[j]) and len(partial_args(p)) == 0 and len(kw) == 1
            and uf('is_chain', d, member(kw, 'handler'), j + 1))


def chain_def(d, p, j):
    """DEFINITION of the uninterpreted is_chain(d, h, j) - "h is the handler chain made of the middlewares from position j
    on, in declared order, around the innermost handler" - instantiated where it is used:
        is_chain(d, h, len(middlewares))  <=>  h is d._handle_request
        is_chain(d, p, j), j < len        <=>  p = partial(middlewares[j], handler=h') and is_chain(d, h', j + 1)"""
    if j == len(d._middlewares):
        define(uf('is_chain', d, p, j) == same(p, bound_method(d, '_handle_request')))
    else:
        define(implies(wraps(d, p, j), uf('is_chain', d, p, j)))
    return True


@contract('pjrpc.server.dispatcher:Dispatcher.__init__', also=('pjrpc.server.dispatcher:AsyncDispatcher.__init__',),
          props=['C12'])
class DispatcherInit:
    """C12 (declared order): the constructor builds the request handler as
    partial(m[0], handler=partial(m[1], handler=... partial(m[n-1], handler=self._handle_request))): the FIRST declared
    middleware is the outermost one, every middleware occurs exactly once, the innermost handler is _handle_request."""
    types = {'self': 'pjrpc.server.dispatcher:BaseDispatcher', 'middlewares': 'seq[=UserMiddleware]',
             'error_handlers': '=dict'}
    raises_only = ()
    frame_unchecked = True
    cross_check = False
    loop0 = {'modifies': ['self._request_handler'], 'index': 'k'}

    def invariant0_chain(self, xs, k):
        n = len(self._middlewares)
        return (len(xs) == n and chain_def(self, self._request_handler, n - k)
                and uf('is_chain', self, self._request_handler, n - k))

    def ensures_chain(self, result):
        return chain_def(self, self._request_handler, 0) and uf('is_chain', self, self._request_handler, 0)


# ------------------------------------------------------------------------------------------------ C01: the codes tuple
def code_or_zero(r):
    return r._error.code if r._error is not UNSET else 0


@contract('pjrpc.server.dispatcher:extract_error_codes', props=['C01'])
class ExtractErrorCodes:
    """C01: the error codes returned alongside the document: one per response object, the error code or 0 for a success;
    a batch-level error is one code.  (A response's `error` is UNSET or a JsonRpcError - class invariant.)"""
    types = {'response': 'pjrpc.common.v20:Response|pjrpc.common.v20:BatchResponse'}
    raises_only = ()
    result_type = '=tuple'
    cross_check = False
    comp_codes = {'elt_contains': 'error.code'}
    assumed_clauses = ('ensures_batch',)

    def requires_inv(response):
        if isinstance(response, BatchResponse):
            return ((response._error is UNSET or isinstance(response._error, JsonRpcError))
                    and all(r._error is UNSET or isinstance(r._error, JsonRpcError) for r in response._responses))
        return response._error is UNSET or isinstance(response._error, JsonRpcError)

    def comp_codes__source(response, xs):
        return seq_same(xs, response._responses)

    def comp_codes__element(response, x, y):
        return same(y, code_or_zero(x))

    def ensures_single(response, result):
        if isinstance(response, BatchResponse):
            return True
        return len(result) == 1 and same(result[0], code_or_zero(response))

    def ensures_batch_error(response, result):
        if not isinstance(response, BatchResponse) or response._error is UNSET:
            return True
        return len(result) == 1 and same(result[0], response._error.code)

    def ensures_batch(response, result):
        # the quantified form of the comprehension contract above (assumed clause: trusted comprehension semantics)
        if not isinstance(response, BatchResponse) or response._error is not UNSET:
            return True
        return (len(result) == len(response._responses)
                and all(same(result[i], code_or_zero(response._responses[i])) for i in range(len(result))))
