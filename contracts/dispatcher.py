"""Sidecar contracts for pjrpc/server/dispatcher.py."""
from pyvc.api import contract
from spec.prims import class_is, implies, is_absent, member, old, same, trace, uf, ufv
from spec.server import registered
from spec.user import error_ok

from pjrpc.common.common import UNSET
from pjrpc.common.exceptions import (InternalError, InvalidParamsError, InvalidRequestError, JsonRpcError,
                                     MethodNotFoundError, ParseError, ServerError)
from pjrpc.common.v20 import Request, Response


@contract('pjrpc.server.dispatcher:Method.bind', also=('pjrpc.server.dispatcher:ViewMethod.bind',), props=['C04'])
class MethodBind:
    """ASSUMED for now (C04 replaces it by a proved contract over the inspect binding spec): binding
    succeeds iff the uninterpreted predicate binds(method, params) holds; the result is a callable whose
    invocation is the user's method (an abstract callable of kind UserMethod)."""
    assumed = True
    types = {'self': 'pjrpc.server.dispatcher:Method', 'params': 'opt:json', 'context': 'any'}
    raises_only = ('pjrpc.server.validators.base:ValidationError',)
    result_type = '=UserMethod'

    def returns_iff(self, params, context):
        return uf('binds', self, params)

    def ensures_target(self, params, context, result):
        return same(ufv('bound_of', result), self)


@contract('pjrpc.server.dispatcher:Dispatcher._handle_rpc_method', props=['C03', 'C02', 'C01', 'C15'])
class HandleRpcMethod:
    types = {'self': 'pjrpc.server.dispatcher:Dispatcher', 'method_name': 'str', 'params': 'opt:json',
             'context': 'any'}
    raises_only = ('pjrpc.common.exceptions:JsonRpcError',)

    def ensures_ran_once(self, method_name, params, context, result):
        m = registered(self, method_name)
        t, t0 = trace(), old(trace())
        return (
            m is not None and uf('binds', m, params)
            and len(t) == len(t0) + 1
            and same(ufv('bound_of', t[len(t0)][1]), m)
            and t[len(t0)][4] == 'ret' and same(t[len(t0)][5], result)
        )

    def ensures_on_JsonRpcError(self, method_name, params, context, exc):
        m = registered(self, method_name)
        t, t0 = trace(), old(trace())
        if m is None:
            # C03 / C15: an unknown name yields -32601 and executes nothing
            return class_is(exc, MethodNotFoundError) and len(t) == len(t0)
        if not uf('binds', m, params):
            # C03: parameters that do not bind yield -32602 without running the method
            return class_is(exc, InvalidParamsError) and len(t) == len(t0)
        if not (len(t) == len(t0) + 1 and same(ufv('bound_of', t[len(t0)][1]), m) and t[len(t0)][4] == 'raise'):
            return False
        x = t[len(t0)][5]
        if isinstance(x, JsonRpcError):
            # C03: a protocol error raised by the method reaches the caller as the very same object
            return same(exc, x)
        # C03: any other exception is reported as the constant ServerError() - nothing of x leaks
        return (class_is(exc, ServerError) and same(exc.code, -32000) and same(exc.message, 'Server error')
                and exc.data is UNSET)
