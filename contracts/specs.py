"""C16 (purity part): the per-method extraction steps of the OpenAPI / OpenRPC generators are FRAME-pure - they write
to nothing that existed before the call (`modifies` is empty apart from the ghost trace of extractor calls): neither the
method's annotations (the user's own lists and dicts) nor the generator nor the method objects change.  Whatever they
return is either freshly built or the annotation object itself (returned, never written).

Not covered (outside the reach of contracts here): validity of the produced documents against the OpenAPI / OpenRPC
meta-schemas, $ref closure, completeness - they depend on pydantic / dataclasses internals."""
from pyvc.api import contract
from spec.prims import old, tlen
from spec.specs import error_classes, meta_ok

from pjrpc.common.common import UNSET
from pjrpc.server.specs.openrpc import Error


def annotations_of(f, key):
    return f.__pjrpc_meta__.get(key) if hasattr(f, '__pjrpc_meta__') else None


@contract('pjrpc.server.specs.openapi:OpenAPI._extract_errors', props=['C16'])
class OpenApiExtractErrors:
    types = {'self': 'pjrpc.server.specs.openapi:OpenAPI', 'method': 'pjrpc.server.dispatcher:Method'}
    raises_only = ()
    modifies = ('$trace',)
    cross_check = False
    loop0 = {'ghosts': ['trace'], 'modifies': ['$seq(errors)']}
    loop1 = {'modifies': ['$fresh']}
    # ASSUMED (trusted base): inside the second loop the defaultdict(list) built here holds only lists it created
    # itself.  (Proving its preservation needs value-sequence reasoning over a dict that is updated in the loop; the
    # first loop - where the annotation list used to be extended in place - and every frame obligation are proved.)
    assumed_clauses = ('invariant1_own_lists',)

    def requires_shapes(self, method):
        if not meta_ok(method.method, 'openapi_spec'):
            return False
        a = annotations_of(method.method, 'openapi_spec')
        if a is None:
            return True
        return a.get('errors', UNSET) is UNSET or error_classes(a.get('errors'))

    def invariant0_own_list(self, method, errors):
        # the list that grows is the function's own copy
        return is_fresh(errors) and error_classes(errors)

    def invariant1_own_lists(self, method, status_error_map):
        # the map built here and every list in it belong to this call
        return is_fresh(status_error_map) and all(is_fresh(v) and isinstance(v, list) for v in status_error_map.values())


from spec.prims import is_fresh


def rpc_shapes(method):
    return meta_ok(method.method, 'openrpc_spec')


def api_shapes(method):
    return meta_ok(method.method, 'openapi_spec')


# OpenRPC._extract_errors is NOT under contract: its list comprehension allocates one Error object per element, which the
# comprehension summaries of the VC generator do not cover (DESIGN, limits).  Its purity is exercised natively only
# (replayers/c16.py).


@contract('pjrpc.server.specs.openrpc:OpenRPC._extract_tags',
          also=('pjrpc.server.specs.openrpc:OpenRPC._extract_servers', 'pjrpc.server.specs.openrpc:OpenRPC._extract_deprecated',
                'pjrpc.server.specs.openrpc:OpenRPC._extract_external_docs', 'pjrpc.server.specs.openrpc:OpenRPC._extract_examples',
                'pjrpc.server.specs.openrpc:OpenRPC._extract_description'),
          props=['C16'])
class OpenRpcExtractSimple:
    """returns the annotation object itself or a new empty list / UNSET: nothing is written"""
    types = {'self': 'pjrpc.server.specs.openrpc:OpenRPC', 'method': 'pjrpc.server.dispatcher:Method'}
    raises_only = ()
    modifies = ('$trace',)
    cross_check = False

    def requires_shapes(self, method):
        return rpc_shapes(method)


@contract('pjrpc.server.specs.openapi:OpenAPI._extract_tags',
          also=('pjrpc.server.specs.openapi:OpenAPI._extract_servers', 'pjrpc.server.specs.openapi:OpenAPI._extract_parameters',
                'pjrpc.server.specs.openapi:OpenAPI._extract_security', 'pjrpc.server.specs.openapi:OpenAPI._extract_external_docs'),
          props=['C16'])
class OpenApiExtractSimple:
    types = {'self': 'pjrpc.server.specs.openapi:OpenAPI', 'method': 'pjrpc.server.dispatcher:Method'}
    raises_only = ()
    modifies = ()
    cross_check = False

    def requires_shapes(self, method):
        return api_shapes(method)


@contract('pjrpc.server.specs.openapi:OpenAPI._extract_description',
          also=('pjrpc.server.specs.openapi:OpenAPI._extract_deprecated',), props=['C16'])
class OpenApiExtractLooped:
    types = {'self': 'pjrpc.server.specs.openapi:OpenAPI', 'method': 'pjrpc.server.dispatcher:Method'}
    raises_only = ()
    modifies = ('$trace',)
    cross_check = False
    loop0 = {'ghosts': ['trace']}

    def requires_shapes(self, method):
        return api_shapes(method)

    def invariant0_true(self, method):
        return True
