"""
Front end: indexes the REAL source of /repo/pjrpc on every run (ast.parse of the working tree).

Nothing here is a copy or model of the code: FuncInfo.node is the AST of the function as it
is on disk right now.  What the extraction drops (stated in DESIGN.md §2): docstrings, type
annotations, typing.cast, logger calls, __repr__/__str__.
"""
from __future__ import annotations

import ast
import hashlib
import os
from dataclasses import dataclass, field
from typing import Dict, List, Optional, Tuple


@dataclass
class FuncInfo:
    qualname: str            # module:Class.func or module:func or module:outer.<locals>.inner
    name: str
    node: ast.AST            # FunctionDef | AsyncFunctionDef | Lambda
    module: 'ModuleInfo'
    cls: Optional['ClassInfo'] = None
    kind: str = 'function'   # function | method | classmethod | staticmethod | property
    decorators: List[ast.expr] = field(default_factory=list)
    setter: Optional['FuncInfo'] = None

    @property
    def is_async(self) -> bool:
        return isinstance(self.node, ast.AsyncFunctionDef)

    @property
    def is_generator(self) -> bool:
        for n in walk_local(self.node):
            if isinstance(n, (ast.Yield, ast.YieldFrom)):
                return True
        return False

    def sha1(self) -> str:
        return hashlib.sha1(ast.dump(strip_doc(self.node)).encode()).hexdigest()[:12]

    def __repr__(self) -> str:
        return f'<Func {self.qualname}>'


def walk_local(node: ast.AST):
    """ast.walk that does not descend into nested function / class definitions."""
    todo = list(ast.iter_child_nodes(node))
    while todo:
        n = todo.pop()
        yield n
        if isinstance(n, (ast.FunctionDef, ast.AsyncFunctionDef, ast.Lambda, ast.ClassDef)):
            continue
        todo.extend(ast.iter_child_nodes(n))


def strip_doc(node: ast.AST) -> ast.AST:
    import copy
    node = copy.deepcopy(node)
    for n in ast.walk(node):
        body = getattr(n, 'body', None)
        if isinstance(body, list) and body and isinstance(body[0], ast.Expr) \
                and isinstance(getattr(body[0], 'value', None), ast.Constant) \
                and isinstance(body[0].value.value, str):
            n.body = body[1:] or [ast.Pass()]
        for f in ('returns', 'annotation'):
            if hasattr(n, f):
                setattr(n, f, None)
    return node


@dataclass
class ClassInfo:
    qualname: str            # module:Class or module:Outer.Inner
    name: str
    node: Optional[ast.ClassDef]
    module: Optional['ModuleInfo']
    base_exprs: List[ast.expr] = field(default_factory=list)
    bases: List['ClassInfo'] = field(default_factory=list)
    methods: Dict[str, FuncInfo] = field(default_factory=dict)
    attrs: Dict[str, ast.expr] = field(default_factory=dict)      # class-level assignments
    inner: Dict[str, 'ClassInfo'] = field(default_factory=dict)
    metaclass_expr: Optional[ast.expr] = None
    builtin: bool = False
    is_dataclass: bool = False
    dc_fields: List[Tuple[str, Optional[ast.expr]]] = field(default_factory=list)
    cid: int = 0             # class id (negative static id), assigned by the engine
    ext_bases: List[str] = field(default_factory=list)

    def mro(self) -> List['ClassInfo']:
        # C3 is overkill here: repo uses single inheritance + (BaseError, ValueError) once.
        seen: List[ClassInfo] = []

        def visit(c: 'ClassInfo') -> None:
            if c in seen:
                return
            seen.append(c)
            for b in c.bases:
                visit(b)
        visit(self)
        # move 'object' to the end
        return seen

    def lookup(self, name: str):
        """returns ('method', FuncInfo) | ('attr', expr, ClassInfo) | None following the mro"""
        for c in self.mro():
            if name in c.methods:
                return ('method', c.methods[name], c)
            if name in c.attrs:
                return ('attr', c.attrs[name], c)
            if name in c.inner:
                return ('class', c.inner[name], c)
        return None

    def is_subclass(self, other: 'ClassInfo') -> bool:
        return other in self.mro()

    def __repr__(self) -> str:
        return f'<Class {self.qualname}>'

    def __hash__(self) -> int:
        return hash(self.qualname)

    def __eq__(self, other) -> bool:
        return isinstance(other, ClassInfo) and other.qualname == self.qualname


@dataclass
class ModuleInfo:
    name: str                # dotted
    path: str
    tree: ast.Module
    is_pkg: bool
    imports: Dict[str, str] = field(default_factory=dict)    # local alias -> dotted target ('pkg.mod' or 'pkg.mod:attr')
    functions: Dict[str, FuncInfo] = field(default_factory=dict)
    classes: Dict[str, ClassInfo] = field(default_factory=dict)
    assigns: Dict[str, ast.expr] = field(default_factory=dict)

    def __repr__(self) -> str:
        return f'<Module {self.name}>'

    def __hash__(self) -> int:
        return hash(self.name)

    def __eq__(self, other) -> bool:
        return isinstance(other, ModuleInfo) and other.name == self.name


class Index:
    def __init__(self, root: str, package: str = 'pjrpc', extra_files: Optional[Dict[str, str]] = None):
        self.root = root
        self.modules: Dict[str, ModuleInfo] = {}
        pkg_dir = os.path.join(root, package)
        for dirpath, dirnames, filenames in os.walk(pkg_dir):
            dirnames[:] = [d for d in dirnames if d != '__pycache__']
            for fn in filenames:
                if not fn.endswith('.py'):
                    continue
                path = os.path.join(dirpath, fn)
                rel = os.path.relpath(path, root)[:-3].replace(os.sep, '.')
                is_pkg = rel.endswith('.__init__')
                if is_pkg:
                    rel = rel[:-len('.__init__')]
                self._load(rel, path, is_pkg)
        for name, path in (extra_files or {}).items():
            self._load(name, path, False)
        for m in self.modules.values():
            for c in list(m.classes.values()):
                self._resolve_bases(c)

    # ------------------------------------------------------------------
    def _load(self, name: str, path: str, is_pkg: bool) -> None:
        with open(path, 'r') as f:
            src = f.read()
        tree = ast.parse(src, filename=path)
        m = ModuleInfo(name=name, path=path, tree=tree, is_pkg=is_pkg)
        self.modules[name] = m
        pkg = name if is_pkg else name.rpartition('.')[0]
        for st in tree.body:
            self._module_stmt(m, st, pkg)

    def _module_stmt(self, m: ModuleInfo, st: ast.stmt, pkg: str) -> None:
        if isinstance(st, ast.Import):
            for a in st.names:
                if a.asname:
                    m.imports[a.asname] = a.name
                else:
                    top = a.name.split('.')[0]
                    m.imports[top] = top
        elif isinstance(st, ast.ImportFrom):
            base = st.module or ''
            if st.level:
                parts = pkg.split('.') if pkg else []
                if st.level > 1:
                    parts = parts[:-(st.level - 1)]
                base = '.'.join(parts + ([st.module] if st.module else []))
            for a in st.names:
                m.imports[a.asname or a.name] = f'{base}:{a.name}'
        elif isinstance(st, (ast.FunctionDef, ast.AsyncFunctionDef)):
            m.functions[st.name] = self._func(m, st, None, f'{m.name}:{st.name}')
        elif isinstance(st, ast.ClassDef):
            m.classes[st.name] = self._class(m, st, f'{m.name}:{st.name}')
        elif isinstance(st, ast.Assign):
            for t in st.targets:
                if isinstance(t, ast.Name):
                    m.assigns[t.id] = st.value
        elif isinstance(st, ast.AnnAssign):
            if isinstance(st.target, ast.Name) and st.value is not None:
                m.assigns[st.target.id] = st.value
        elif isinstance(st, (ast.If, ast.Try)):
            for sub in getattr(st, 'body', []):
                self._module_stmt(m, sub, pkg)

    def _func(self, m: ModuleInfo, node, cls: Optional[ClassInfo], qualname: str) -> FuncInfo:
        kind = 'function' if cls is None else 'method'
        for d in node.decorator_list:
            dn = ast.unparse(d)
            if dn == 'classmethod':
                kind = 'classmethod'
            elif dn == 'staticmethod':
                kind = 'staticmethod'
            elif dn == 'property':
                kind = 'property'
            elif dn.endswith('.setter'):
                kind = 'setter'
        return FuncInfo(qualname=qualname, name=node.name, node=node, module=m, cls=cls, kind=kind,
                        decorators=[d for d in node.decorator_list])

    def _class(self, m: ModuleInfo, node: ast.ClassDef, qualname: str) -> ClassInfo:
        c = ClassInfo(qualname=qualname, name=node.name, node=node, module=m, base_exprs=list(node.bases))
        for kw in node.keywords:
            if kw.arg == 'metaclass':
                c.metaclass_expr = kw.value
        for d in node.decorator_list:
            if 'dataclass' in ast.unparse(d):
                c.is_dataclass = True
        for st in node.body:
            if isinstance(st, (ast.FunctionDef, ast.AsyncFunctionDef)):
                fi = self._func(m, st, c, f'{qualname}.{st.name}')
                if fi.kind == 'setter':
                    if st.name in c.methods:
                        c.methods[st.name].setter = fi
                    continue
                c.methods[st.name] = fi
            elif isinstance(st, ast.ClassDef):
                c.inner[st.name] = self._class(m, st, f'{qualname}.{st.name}')
            elif isinstance(st, ast.Assign):
                for t in st.targets:
                    if isinstance(t, ast.Name):
                        c.attrs[t.id] = st.value
            elif isinstance(st, ast.AnnAssign) and isinstance(st.target, ast.Name):
                is_classvar = 'ClassVar' in ast.unparse(st.annotation)
                if st.value is not None:
                    c.attrs[st.target.id] = st.value
                if c.is_dataclass and not is_classvar:
                    c.dc_fields.append((st.target.id, st.value))
        return c

    def _resolve_bases(self, c: ClassInfo) -> None:
        from .builtins_model import builtin_class
        for b in c.base_exprs:
            txt = ast.unparse(b)
            if txt.startswith('Generic['):
                continue
            target = self.resolve_expr_static(c.module, b)
            if isinstance(target, ClassInfo):
                c.bases.append(target)
            else:
                bc = builtin_class(txt.split('.')[-1])
                if bc is not None:
                    c.bases.append(bc)
                else:
                    c.ext_bases.append(txt)
        if not c.bases:
            c.bases.append(builtin_class('object'))
        for ic in c.inner.values():
            self._resolve_bases(ic)

    # ------------------------------------------------------------------
    def resolve_dotted(self, dotted: str):
        """'pkg.mod' -> ModuleInfo ; 'pkg.mod:attr' -> FuncInfo | ClassInfo | ('const', module, expr) | ModuleInfo | None"""
        if ':' not in dotted:
            return self.modules.get(dotted)
        modname, _, attr = dotted.partition(':')
        # from pkg import submodule
        if f'{modname}.{attr}' in self.modules:
            return self.modules[f'{modname}.{attr}']
        m = self.modules.get(modname)
        if m is None:
            return None
        return self.module_attr(m, attr)

    def module_attr(self, m: ModuleInfo, attr: str, _depth: int = 0):
        if _depth > 8:
            return None
        if attr in m.functions:
            return m.functions[attr]
        if attr in m.classes:
            return m.classes[attr]
        if attr in m.assigns:
            return ('const', m, m.assigns[attr])
        if attr in m.imports:
            tgt = m.imports[attr]
            if ':' not in tgt:
                return self.modules.get(tgt) or ('extmod', tgt)
            modname, _, a = tgt.partition(':')
            if f'{modname}.{a}' in self.modules:
                return self.modules[f'{modname}.{a}']
            m2 = self.modules.get(modname)
            if m2 is None:
                return ('ext', tgt)
            return self.module_attr(m2, a, _depth + 1)
        if m.is_pkg and f'{m.name}.{attr}' in self.modules:
            return self.modules[f'{m.name}.{attr}']
        return None

    def resolve_expr_static(self, m: ModuleInfo, e: ast.expr):
        """Resolve Name / dotted Attribute chains at module level to index objects."""
        if isinstance(e, ast.Name):
            return self.module_attr(m, e.id)
        if isinstance(e, ast.Attribute):
            base = self.resolve_expr_static(m, e.value)
            if isinstance(base, ModuleInfo):
                return self.module_attr(base, e.attr)
            if isinstance(base, ClassInfo):
                r = base.lookup(e.attr)
                if r and r[0] == 'class':
                    return r[1]
                if r and r[0] == 'method':
                    return r[1]
            return None
        return None

    def find(self, qualname: str):
        """'pjrpc.common.v20:Response.from_json' -> FuncInfo ; 'mod:Class' -> ClassInfo"""
        modname, _, path = qualname.partition(':')
        m = self.modules.get(modname)
        if m is None:
            return None
        parts = path.split('.')
        cur = None
        if parts[0] in m.classes:
            cur = m.classes[parts[0]]
        elif parts[0] in m.functions:
            cur = m.functions[parts[0]]
        else:
            return None
        for p in parts[1:]:
            if isinstance(cur, ClassInfo):
                if p in cur.methods:
                    cur = cur.methods[p]
                elif p in cur.inner:
                    cur = cur.inner[p]
                else:
                    return None
            elif isinstance(cur, FuncInfo):
                if p == '<locals>':
                    continue
                found = None
                for n in walk_all_defs(cur.node):
                    if n.name == p:
                        found = FuncInfo(qualname=f'{cur.qualname}.<locals>.{p}', name=p, node=n, module=cur.module,
                                         cls=None, kind='function', decorators=list(n.decorator_list))
                        break
                if found is None:
                    return None
                cur = found
        return cur


def walk_all_defs(node: ast.AST):
    for st in node.body:
        for n in ast.walk(st):
            if isinstance(n, (ast.FunctionDef, ast.AsyncFunctionDef)):
                yield n
