"""
Model -> Python objects (for replaying counterexamples and for the CPython cross-check).

A z3 model of a path condition is turned into concrete arguments for the REAL function:
JSON values are rebuilt from the initial heap arrays ($dict at the probed keys, $seq), library
objects with object.__new__(cls) + the attributes read on the path, abstract callables as stubs.
A model that cannot be realised as Python objects raises Unrealisable (reported as a checker
problem, never as a violation).
"""
from __future__ import annotations

import importlib
from fractions import Fraction
from typing import Any, Dict, List, Optional, Tuple

import z3

from . import smt
from .smt import Val
from .core import BoundMethod, Builtin, Closure, ExtObject, Partial, State
from .index import ClassInfo, FuncInfo


class Unrealisable(Exception):
    pass


class Stub:
    """stand-in for an abstract user callable / opaque user object"""
    def __init__(self, name: str):
        self.__name__ = name
        self.calls: List[Tuple[tuple, dict]] = []
        self.script: List[Any] = []

    def __call__(self, *a, **k):
        self.calls.append((a, k))
        if self.script:
            kind, val = self.script.pop(0)
            if kind == 'raise':
                raise val
            return val
        return None

    def __repr__(self):
        return f'<stub {self.__name__}>'


def import_qualname(q: str):
    modname, _, path = q.partition(':')
    if modname == 'builtins':
        import builtins
        obj: Any = builtins
    else:
        obj = importlib.import_module(modname)
    for p in path.split('.') if path else []:
        obj = getattr(obj, p)
    return obj


BUILTIN_EXC = {
    'JSONDecodeError': ('json', 'JSONDecodeError'), 'CancelledError': ('asyncio', 'CancelledError'),
}


class Concretizer:
    def __init__(self, engine, model: z3.ModelRef, state: State, probes, attr_reads, statics: Dict[int, Any]):
        self.e = engine
        self.m = model
        from .core import State
        self.st = State()               # the initial heap arrays (H_dict, H_dlen, H_seq)
        self.probes = probes
        self.attr_reads = attr_reads
        self.statics = statics
        self.memo: Dict[int, Any] = {}
        self.depth = 0

    def ev(self, t):
        return self.m.eval(t, model_completion=True)

    def val(self, v) -> Any:
        mv = self.ev(v)
        n = mv.decl().name()
        if n == 'none':
            return None
        if n == 'absent':
            raise Unrealisable('absent marker reached a Python value position')
        if n == 'bool':
            return z3.is_true(mv.arg(0))
        if n == 'int':
            return mv.arg(0).as_long()
        if n == 'flt':
            a = mv.arg(0)
            if z3.is_rational_value(a):
                return float(Fraction(a.numerator_as_long(), a.denominator_as_long()))
            if z3.is_algebraic_value(a):
                return float(a.approx(20).as_fraction())
            raise Unrealisable(f'real value {a}')
        if n == 'str':
            return mv.arg(0).as_string()
        if n == 'ref':
            return self.ref(mv.arg(0).as_long())
        raise Unrealisable(f'unexpected model value {mv}')

    def class_of_ref(self, rid: int) -> Optional[ClassInfo]:
        cid = self.ev(smt.cls_of(z3.IntVal(rid)))
        if not z3.is_int_value(cid):
            return None
        c = self.e.static_objs.get(cid.as_long())
        return c if isinstance(c, ClassInfo) else None

    def ref(self, rid: int) -> Any:
        if rid in self.memo:
            return self.memo[rid]
        if rid < 0:
            so = self.statics.get(rid) or self.e.static_objs.get(rid)
            obj = self.static(so, rid)
            self.memo[rid] = obj
            return obj
        c = self.class_of_ref(rid)
        g = self.e.static_objs.get(rid)
        if isinstance(g, tuple) and g and g[0] == 'global':
            obj = self.static(g, rid)
            if c is None or type(obj).__name__ == c.name:
                self.memo[rid] = obj
                return obj
        self.depth += 1
        try:
            if self.depth > 12:
                return None
            if c is None:
                raise Unrealisable(f'object {rid} has no known class in the model')
            if c.builtin:
                return self.builtin_obj(rid, c)
            pycls = import_qualname(c.qualname)
            obj = object.__new__(pycls) if not issubclass(pycls, BaseException) else pycls.__new__(pycls)
            self.memo[rid] = obj
            self.fill_attrs(obj, rid, c)
            return obj
        finally:
            self.depth -= 1

    def fill_attrs(self, obj, rid: int, c: ClassInfo) -> None:
        names = set(self.e.declared_attrs(c)) if not c.builtin else set()
        for n, r in self.attr_reads:
            rv = self.ev(r)
            if z3.is_int_value(rv) and rv.as_long() == rid:
                names.add(n)
        for n in sorted(names):
            if n.startswith('$'):
                continue
            arr = z3.Array(f'H_attr_{n}', smt.I, Val)        # inputs live in the heap as it was on entry
            mv = self.ev(z3.Select(arr, z3.IntVal(rid)))
            if mv.decl().name() == 'absent':
                continue
            try:
                object.__setattr__(obj, n, self.val(mv))
            except (AttributeError, TypeError):
                try:
                    obj.__dict__[n] = self.val(mv)
                except Exception as ex:       # pragma: no cover
                    raise Unrealisable(f'cannot set {n} on {type(obj).__name__}: {ex}')

    def builtin_obj(self, rid: int, c: ClassInfo) -> Any:
        if c.name in ('list', 'tuple'):
            out: List[Any] = []
            self.memo[rid] = out
            s = self.ev(z3.Select(self.st.seq, z3.IntVal(rid)))
            n = self.ev(z3.Length(s)).as_long()
            if n > 64:
                raise Unrealisable(f'sequence of length {n}')
            for i in range(n):
                out.append(self.val(self.ev(s[i])))
            if c.name == 'tuple':
                t = tuple(out)
                self.memo[rid] = t
                return t
            return out
        if c.name in ('dict', 'defaultdict'):
            d: Dict[Any, Any] = {}
            self.memo[rid] = d
            arr = z3.Select(self.st.dct, z3.IntVal(rid))
            for r, k in self.probes:
                rv = self.ev(r)
                if not (z3.is_int_value(rv) and rv.as_long() == rid):
                    continue
                kv = self.ev(k)
                mv = self.ev(z3.Select(arr, kv))
                if mv.decl().name() == 'absent':
                    continue
                d[self.val(kv)] = self.val(mv)
            want = self.ev(z3.Select(self.st.dlen, z3.IntVal(rid)))
            want_n = want.as_long() if z3.is_int_value(want) else len(d)
            if want_n < len(d):
                raise Unrealisable(f'dict {rid}: model length {want_n} < {len(d)} members present')
            i = 0
            while len(d) < want_n and i < 64:
                d[f'$filler{i}'] = None
                i += 1
            return d
        if c.name in ('set', 'frozenset'):
            s = set()
            arr = z3.Select(self.st.dct, z3.IntVal(rid))
            for r, k in self.probes:
                rv = self.ev(r)
                if z3.is_int_value(rv) and rv.as_long() == rid:
                    kv = self.ev(k)
                    if self.ev(z3.Select(arr, kv)).decl().name() != 'absent':
                        s.add(self.val(kv))
            self.memo[rid] = s
            return s
        if c.name in ('UserCallable', 'UserObject', 'object', 'SimpleNamespace'):
            st = Stub(f'user{rid}')
            self.memo[rid] = st
            self.fill_attrs(st, rid, c)
            return st
        if c.is_subclass(self.e.find_class('BaseException')):
            import builtins
            if c.name in BUILTIN_EXC:
                mod, nm = BUILTIN_EXC[c.name]
                pycls = getattr(importlib.import_module(mod), nm)
            elif c.name == 'UserException':
                pycls = type('UserException', (Exception,), {})
            elif c.name == 'UserBaseException':
                pycls = type('UserBaseException', (BaseException,), {})
            else:
                pycls = getattr(builtins, c.name)
            try:
                ex = pycls('replayed')
            except TypeError:
                ex = pycls.__new__(pycls)
            self.memo[rid] = ex
            return ex
        raise Unrealisable(f'cannot build builtin object of class {c.name}')

    def static(self, so, rid: int) -> Any:
        if isinstance(so, ClassInfo):
            if so.builtin:
                import builtins
                if so.name in BUILTIN_EXC:
                    mod, nm = BUILTIN_EXC[so.name]
                    return getattr(importlib.import_module(mod), nm)
                if hasattr(builtins, so.name):
                    return getattr(builtins, so.name)
                if so.name == 'NoneType':
                    return type(None)
                raise Unrealisable(f'builtin class {so.name}')
            return import_qualname(so.qualname)
        if isinstance(so, Closure) and so.frame is None:
            return import_qualname(so.func.qualname)
        if isinstance(so, tuple) and so and so[0] == 'global':
            owner = so[1]
            if ':' in owner:
                return getattr(import_qualname(owner), so[2])
            return getattr(importlib.import_module(owner), so[2])
        if so is None:
            return self.synth_class(rid)
        raise Unrealisable(f'static object of kind {type(so).__name__}')

    def install_globals(self):
        """make process-global dicts (the error-class registry) agree with the model at the probed keys;
        returns an undo function"""
        undo = []
        for r, k in self.probes:
            rv = self.ev(r)
            if not z3.is_int_value(rv):
                continue
            g = self.e.static_objs.get(rv.as_long())
            if not (isinstance(g, tuple) and g and g[0] == 'global'):
                continue
            real = self.static(g, rv.as_long())
            if not isinstance(real, dict):
                continue
            kv = self.val(self.ev(k))
            mv = self.ev(z3.Select(z3.Select(self.st.dct, rv), self.ev(k)))
            had = kv in real
            prev = real.get(kv)
            if mv.decl().name() == 'absent':
                if had:
                    del real[kv]
                    undo.append((real, kv, True, prev))
            else:
                nv = self.val(mv)
                if not had or prev is not nv:
                    real[kv] = nv
                    undo.append((real, kv, had, prev))

        def restore():
            for real, kv, had, prev in reversed(undo):
                if had:
                    real[kv] = prev
                else:
                    real.pop(kv, None)
        return restore

    def synth_class(self, rid: int):
        """a class object unknown to the library: realise it as a fresh subclass of the most specific
        known class the model says it derives from, with the class attributes the model gives it"""
        best = None
        for c in self.e.classes:
            if z3.is_true(self.ev(smt.sub(z3.IntVal(rid), z3.IntVal(c.cid)))):
                if best is None or c.is_subclass(best):
                    best = c
        if best is None or best.builtin:
            raise Unrealisable(f'unknown static object {rid}')
        base = import_qualname(best.qualname)
        ns = {}
        for d in self.m.decls():
            if d.name().startswith('classattr_'):
                v = self.ev(d(z3.IntVal(rid)))
                if v.decl().name() != 'absent':
                    ns[d.name()[len('classattr_'):]] = self.val(v)
        # creating a JsonRpcError subclass registers it by code (metaclass side effect): undo that
        reg = None
        try:
            from pjrpc.common.exceptions import JsonRpcErrorMeta
            reg = JsonRpcErrorMeta.__errors_mapping__
            saved = dict(reg)
        except Exception:
            pass
        k = type(f'Synth{-rid}', (base,), ns)
        if reg is not None:
            reg.clear()
            reg.update(saved)
        return k
