"""
Assumed model of `inspect.signature` / `Signature.bind` / `BoundArguments` (C04, C14, C17) and spec primitives over
`functools.partial` objects.

Python's argument binding is NOT re-implemented: `Signature.bind` IS the specification of "what a direct call would
bind" (inspect documents it as the mirror of the call protocol).  It is represented by uninterpreted functions of the
signature and of the CONTENT of the positional / named arguments:

    sig_binds(sig, positional : Seq, named : Map)        binding succeeds
    bound_args(sig, positional, named) : dict            BoundArguments.arguments of a successful binding
    sig_of(callable) : Signature                         inspect.signature(callable)
    filtered_sig(validator, callable, excluded : Seq)    BaseValidator.signature (assumed + bounded stand-in)

Assumed facts (instantiated where the dicts are read, never quantified):
    keys(bound_args(sig, a, k)) are parameter names of sig            [is_param(sig, name)]
    for a signature of plain parameters (no positional-only, *args, **kwargs - `sig_plain`) and a purely named
    call, bound_args is exactly the named arguments; for a purely positional call it has one entry per argument
"""
from __future__ import annotations

import ast
from typing import Any

import z3

from . import smt
from .smt import Val
from .core import BoundBuiltin, Partial
from .builtins_model import builtin_class


class InspectMixin:
    # ------------------------------------------------------------------ uninterpreted vocabulary
    def _f_sig_binds(self):
        return z3.Function('sig_binds', Val, smt.SeqV, smt.DictV, z3.BoolSort())

    def _f_bound_args(self):
        return z3.Function('bound_args', Val, smt.SeqV, smt.DictV, Val)

    def _f_is_param(self):
        return z3.Function('is_param', Val, Val, z3.BoolSort())

    def _f_sig_plain(self):
        return z3.Function('sig_plain', Val, z3.BoolSort())

    def params_content(self, params):
        """(positional Seq, named Map) a JSON-RPC params value stands for: list/tuple -> positional, dict -> named"""
        isref = Val.is_ref(params)
        c = smt.cls_of(Val.r(params))
        L, T, D = (builtin_class(n) for n in ('list', 'tuple', 'dict'))
        for k in (L, T, D):
            self.use_class(k)
        # isinstance semantics, as in the code (subclasses included)
        is_seq = z3.And(isref, z3.Or(smt.sub(c, z3.IntVal(L.cid)), smt.sub(c, z3.IntVal(T.cid))))
        is_map = z3.And(isref, z3.Not(is_seq), smt.sub(c, z3.IntVal(D.cid)))
        seq = z3.If(is_seq, z3.Select(self.seq_for(params), Val.r(params)), z3.Empty(smt.SeqV))
        dct = z3.If(is_map, z3.Select(self.dct_for(params), Val.r(params)), z3.K(Val, smt.ABSENT))
        return smt.simp(seq), smt.simp(dct)

    def seq_for(self, v):
        return self.strip_fresh(self.st.seq) if self.is_old(v) else self.st.seq

    def dct_for(self, v):
        return self.strip_fresh(self.st.dct) if self.is_old(v) else self.st.dct

    def bound_args_val(self, sig, seq, dct):
        """the abstract dict bound_args(sig, seq, dct) with its assumed member facts registered"""
        B = self._f_bound_args()(sig, seq, dct)
        self.mark_external(B)
        self._add_axiom(self.type_formula(B, '=dict'))
        arr = self.dict_arr(B)
        is_param, plain = self._f_is_param(), self._f_sig_plain()

        def fact(kk):
            v = z3.Select(arr, kk)
            # every bound name is a parameter of the signature
            self._add_axiom(z3.Implies(v != smt.ABSENT, is_param(sig, kk)))
            # plain signature, named call: exactly the named arguments (defaults are not part of .arguments)
            self._add_axiom(z3.Implies(z3.And(plain(sig), z3.Length(seq) == 0), v == z3.Select(dct, kk)))
        self.base_facts[arr.get_id()] = fact
        n = z3.Select(self.st.dlen, Val.r(B))
        self._add_axiom(z3.Implies(z3.And(plain(sig), z3.Length(seq) == 0), arr == dct))
        self._add_axiom(n >= 0)
        return B

    # ------------------------------------------------------------------ inspect
    def bi_inspect_signature(self, args, kwargs):
        f = z3.Function('sig_of', Val, Val)
        r = f(args[0])
        self.mark_external(r)
        self._add_axiom(self.type_formula(r, '=Signature'))
        return r

    def bb_Signature_bind(self, sig, args, kwargs, star=None, dstar=None):
        seq = self.seq_of_items(list(args)) if args else z3.Empty(smt.SeqV)
        if star is not None:
            sv = self.to_seq_val(star)
            seq = smt.simp(z3.Concat(seq, self.get_seq(sv))) if args else self.get_seq(sv)
        dct = z3.K(Val, smt.ABSENT)
        if dstar is not None:
            dct = self.dict_arr(dstar)
        for k, v in kwargs.items():
            dct = z3.Store(dct, Val.str(z3.StringVal(k)), v)
        seq, dct = smt.simp(seq), smt.simp(dct)
        ok = self._f_sig_binds()(sig, seq, dct)
        if self.branch(z3.Not(ok)):
            msg = self.fresh('bind_msg')
            self._add_axiom(Val.is_str(msg))
            self.raise_new('TypeError', msg, origin='inspect.Signature.bind (assumed)')
        B = self.bound_args_val(sig, seq, dct)
        b = self.alloc(builtin_class('BoundArguments'))
        D = self.alloc(builtin_class('dict'))                        # a new dict owned by the BoundArguments object
        self.st.dct = z3.Store(self.st.dct, smt.simp(Val.r(D)), self.dict_arr(B))
        self.st.dlen = z3.Store(self.st.dlen, smt.simp(Val.r(D)), z3.Select(self.st.dlen, Val.r(B)))
        self.set_attr_raw(b, 'arguments', D)
        self.set_attr_raw(b, 'signature', sig)
        return b

    bb_Signature_bind.takes_star = True

    def attr_BoundArguments_arguments(self, obj):
        return smt.simp(z3.Select(self.attr_array('arguments'), Val.r(obj)))

    def attr_Signature_bind(self, obj):
        return self.static_val(BoundBuiltin('Signature.bind', obj))

    # ------------------------------------------------------------------ spec primitives
    def prim_sig_of(self, e, fr):
        return self.bi_inspect_signature([self.ev(e.args[0], fr)], {})

    def prim_filtered_sig(self, e, fr):
        """filtered_sig(validator, callable, excluded names): the signature BaseValidator.signature computes"""
        v, m, ex = (self.ev(a, fr) for a in e.args)
        f = z3.Function('filtered_sig', Val, Val, smt.SeqV, Val)
        seq = smt.simp(z3.Select(self.seq_for(ex), Val.r(ex)))
        r = f(v, m, seq)
        self.mark_external(r)
        self._add_axiom(self.type_formula(r, '=Signature'))
        return r

    def prim_sig_binds(self, e, fr):
        sig = self.ev(e.args[0], fr)
        seq, dct = self.params_content(self.ev(e.args[1], fr))
        return self.to_val_bool(self._f_sig_binds()(sig, seq, dct))

    def prim_bound_arguments(self, e, fr):
        sig = self.ev(e.args[0], fr)
        seq, dct = self.params_content(self.ev(e.args[1], fr))
        return self.bound_args_val(sig, seq, dct)

    def prim_is_param(self, e, fr):
        sig, name = self.ev(e.args[0], fr), self.ev(e.args[1], fr)
        return self.to_val_bool(self._f_is_param()(sig, self.key_term(name)))

    def prim_sig_plain(self, e, fr):
        return self.to_val_bool(self._f_sig_plain()(self.ev(e.args[0], fr)))

    def _partial_of(self, e, fr) -> Partial:
        so = self.static_of(self.ev(e.args[0], fr))
        if not isinstance(so, Partial):
            self.unsupported('partial_* of a value that is not a functools.partial object')
        return so

    def prim_is_partial(self, e, fr):
        return smt.mk_bool(isinstance(self.static_of(self.ev(e.args[0], fr)), Partial))

    def prim_partial_func(self, e, fr):
        return self._partial_of(e, fr).func

    def prim_partial_args(self, e, fr):
        return self.mk_tuple(list(self._partial_of(e, fr).args))

    def prim_partial_kwargs(self, e, fr):
        p = self._partial_of(e, fr)
        if p.dstar is None:
            return self.mk_dict([(smt.mk_str(k), v) for k, v in p.kwargs.items()])
        d = self.dict_copy(p.dstar)
        for k, v in p.kwargs.items():
            self.dict_set(d, smt.mk_str(k), v)
        return d

    def prim_dict_eq(self, e, fr):
        """dict_eq(a, b): same entries (extensional equality of the two maps)"""
        a, b = self.ev(e.args[0], fr), self.ev(e.args[1], fr)
        return self.to_val_bool(self.dict_arr(a) == self.dict_arr(b))

    def prim_dict_eq_except(self, e, fr):
        """dict_eq_except(a, b, k): a and b have the same entries apart from key k"""
        a, b, k = (self.ev(x, fr) for x in e.args)
        kk = self.key_term(k)
        aa, bb = self.dict_arr(a), self.dict_arr(b)
        return self.to_val_bool(aa == z3.Store(bb, kk, z3.Select(aa, kk)))

    # ------------------------------------------------------------------ jsonschema (assumed)
    def _f_schema_ok(self):
        return z3.Function('schema_ok', smt.DictV, smt.DictV, smt.DictV, z3.BoolSort())

    def bi_jsonschema_validate(self, args, kwargs, dstar=None):
        """ASSUMED: jsonschema.validate(instance, **kw) raises jsonschema.ValidationError exactly when the uninterpreted
        schema_ok(instance content, default keyword content, call keyword content) fails; no effect; nothing else"""
        inst = self.dict_arr(args[0])
        empty = z3.K(Val, smt.ABSENT)
        aa, bb = empty, empty
        if dstar is not None:
            def plain(arr):
                # {**{}, **x} is x
                arr = smt.simp(arr)
                e1 = self.merged_dicts.get(arr.get_id())
                if e1 is not None and smt.simp(e1[1]).eq(smt.simp(empty)):
                    return plain(e1[2])
                return arr
            ent = self.merged_dicts.get(self.dict_arr(dstar).get_id())
            if ent is not None:
                aa, bb = plain(ent[1]), plain(ent[2])
            else:
                bb = self.dict_arr(dstar)
        for k, v in kwargs.items():
            bb = z3.Store(bb, Val.str(z3.StringVal(k)), v)
        ok = self._f_schema_ok()(inst, smt.simp(aa), smt.simp(bb))
        if self.branch(z3.Not(ok)):
            exc = self.alloc(builtin_class('JsonSchemaValidationError'))
            t = self.alloc(builtin_class('tuple'))
            msg = self.fresh('schema_msg')
            self._add_axiom(Val.is_str(msg))
            self.set_seq(t, z3.Unit(msg))
            self.set_attr_raw(exc, 'args', t)
            from .core import PyRaise
            raise PyRaise(exc, 'jsonschema.validate (assumed)')
        return smt.NONE

    bi_jsonschema_validate.takes_dstar = True

    def prim_schema_ok(self, e, fr):
        a, b, c = (self.ev(x, fr) for x in e.args)
        return self.to_val_bool(self._f_schema_ok()(self.dict_arr(a), self.dict_arr(b), self.dict_arr(c)))
