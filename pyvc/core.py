"""
Core data structures of the VC generator: signals, static objects, per-path state.

Execution model: *re-execution based forking*.  The interpreter (engine.py) is written like an
ordinary recursive interpreter; at every symbolic branch it asks Path.branch(cond), which replays a
recorded decision prefix and, past its end, takes the first feasible side and queues the other.
Every path therefore re-executes the function from its entry; state is mutated in place.
"""
from __future__ import annotations

import time
from dataclasses import dataclass, field
from typing import Any, Dict, List, Optional, Tuple

import z3

from . import smt
from .smt import Val


# ----------------------------------------------------------------------------------------------
# signals
class PyRaise(Exception):
    """the analysed program raises exception object `exc` (a Val ref)"""
    def __init__(self, exc, origin: str = ''):
        self.exc = exc
        self.origin = origin


class ReturnSig(Exception):
    def __init__(self, val):
        self.val = val


class BreakSig(Exception):
    pass


class ContinueSig(Exception):
    pass


class PathEnd(Exception):
    """the current path ends here without an outcome (e.g. after an inductive step)"""


class Infeasible(Exception):
    """path condition became unsatisfiable"""


class Unsupported(Exception):
    """construct outside the supported subset -> function undecided (exit 2), never a violation"""


class YieldSig(Exception):
    pass


# ----------------------------------------------------------------------------------------------
# static objects (encoded as ref(<negative id>))
@dataclass(eq=False)
class BoundMethod:
    recv: Any            # Val
    func: Any            # FuncInfo | Closure


@dataclass(eq=False)
class Closure:
    func: Any            # FuncInfo
    frame: Any           # defining Frame (captured variables) or None
    defaults: Dict[str, Any] = field(default_factory=dict)


@dataclass(eq=False)
class Builtin:
    name: str            # 'isinstance', 'len', 'json.loads', ...


@dataclass(eq=False)
class BoundBuiltin:
    name: str            # 'dict.get', 'list.append', 'str.join', ...
    recv: Any


@dataclass(eq=False)
class ExtModule:
    name: str


@dataclass(eq=False)
class ExtObject:
    """opaque external object with no modelled behaviour (e.g. a logger)"""
    name: str


@dataclass(eq=False)
class Partial:
    func: Any            # Val
    args: List[Any]
    kwargs: Dict[str, Any]
    dstar: Any = None    # symbolic kwargs dict (Val) or None


@dataclass(eq=False)
class GenObj:
    """a suspended generator / generator expression evaluated lazily"""
    kind: str            # 'genexp' | 'map' | 'seq'
    payload: Any


@dataclass(eq=False)
class PropertyObj:
    func: Any


# ----------------------------------------------------------------------------------------------
@dataclass
class Obligation:
    oid: str
    func: str
    kind: str                  # ensures | raises_only | requires@callee | invariant-entry | invariant-step | frame | assert
    text: str
    pc: List[Any]
    goal: Any
    props: Tuple[str, ...] = ()
    verdict: str = 'pending'   # discharged | failed | unknown
    backend: str = ''
    ms: float = 0.0
    model: Any = None
    decisions: Tuple[int, ...] = ()
    info: Dict[str, Any] = field(default_factory=dict)


class Frame:
    def __init__(self, func, module, parent: Optional['Frame'] = None, cls=None):
        self.func = func
        self.module = module
        self.parent = parent        # lexically enclosing frame (closures)
        self.cls = cls              # class being defined in (for super())
        self.locals: Dict[str, Any] = {}
        self.cell_names: set = set()
        self.is_spec = False

    def lookup(self, name: str):
        f: Optional[Frame] = self
        while f is not None:
            if name in f.locals:
                return f.locals[name]
            f = f.parent
        return None

    def has(self, name: str) -> bool:
        f: Optional[Frame] = self
        while f is not None:
            if name in f.locals:
                return True
            f = f.parent
        return False


class State:
    """symbolic heap (SSA: every field is a z3 term that is replaced on update)"""

    def __init__(self):
        self.attrs: Dict[str, Any] = {}
        self.dct = z3.Array('H_dict', smt.I, smt.DictV)
        self.dlen = z3.Array('H_dlen', smt.I, smt.I)
        self.seq = z3.Array('H_seq', smt.I, smt.SeqV)
        self.ghost: Dict[str, Any] = {}

    def snapshot(self) -> 'State':
        s = State.__new__(State)
        s.attrs = dict(self.attrs)
        s.dct, s.dlen, s.seq = self.dct, self.dlen, self.seq
        s.ghost = dict(self.ghost)
        return s

    def restore(self, other: 'State') -> None:
        self.attrs = dict(other.attrs)
        self.dct, self.dlen, self.seq = other.dct, other.dlen, other.seq
        self.ghost = dict(other.ghost)
