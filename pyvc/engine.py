"""
The symbolic interpreter over the real AST (expressions, statements, calls).
Semantics assumed for Python are documented in DESIGN.md §3.1.
"""
from __future__ import annotations

import ast
from typing import Any, Dict, List, Optional, Tuple

import z3

from . import smt
from .smt import Val
from .core import (BoundBuiltin, BoundMethod, BreakSig, Builtin, Closure, ContinueSig, ExtModule, ExtObject, Frame,
                   GenObj, Infeasible, Partial, PathEnd, PropertyObj, PyRaise, ReturnSig, Unsupported)
from .index import ClassInfo, FuncInfo, Index, ModuleInfo, walk_local
from .builtins_model import builtin_class
from .pathmgr import PathMgr

EXT_MODULES = {'json', 'asyncio', 'functools', 'itertools', 'logging', 'time', 'inspect', 'typing', 'abc',
               'operator', 'dataclasses', 'copy', 'collections', 'random', 'string', 'uuid', 'types',
               'jsonschema', 'pydantic', 'werkzeug', 'flask', 'aiohttp', 'unittest', 'pytest', 'enum',
               'warnings', 'sys', 'os', 're', 'docstring_parser', 'http', 'pathlib', 'unittest.mock'}

BUILTIN_FUNCS = {'isinstance', 'len', 'tuple', 'list', 'dict', 'set', 'str', 'int', 'bool', 'float', 'min', 'max',
                 'next', 'iter', 'getattr', 'hasattr', 'setattr', 'callable', 'all', 'any', 'filter', 'map', 'repr',
                 'reversed', 'enumerate', 'range', 'zip', 'sorted', 'type', 'super', 'id', 'issubclass', 'object',
                 'print', 'sum', 'abs', 'frozenset', 'dir', 'vars', 'hash'}

INLINE_DEPTH = 12


class EngineBase(PathMgr):
    def __init__(self, index: Index):
        super().__init__(index)
        self.contracts: Dict[str, Any] = {}       # qualname -> Contract (set by verify.py)
        self.no_contract_for: set = set()         # qualnames to inline even if a contract exists
        self.depth = 0
        self.spec_index: Optional[Index] = None
        self._decl_cache: Dict[str, set] = {}
        self.subclasses: Dict[str, List[ClassInfo]] = {}
        for c in self.classes:
            for b in c.mro():
                self.subclasses.setdefault(b.qualname, []).append(c)

    # ==================================================================================== helpers
    def unsupported(self, what: str, node: Optional[ast.AST] = None):
        loc = f' (line {getattr(node, "lineno", "?")})' if node is not None else ''
        raise Unsupported(f'{what}{loc} in {self.current_func}')

    def new_exc(self, cname: str, *args):
        c = builtin_class(cname) or self.find_class(cname)
        if c is None:
            self.unsupported(f'unknown exception class {cname}')
        e = self.alloc(c)
        self.set_attr_raw(e, 'args', self.mk_tuple(list(args)))
        return e

    def raise_new(self, cname: str, *args, origin: str = ''):
        raise PyRaise(self.new_exc(cname, *args), origin or cname)

    def find_class(self, name: str) -> Optional[ClassInfo]:
        if ':' in name:
            r = self.index.find(name)
            return r if isinstance(r, ClassInfo) else None
        for c in self.classes:
            if c.name == name:
                return c
        return None

    def mk_tuple(self, items: List[Any]):
        t = self.alloc(builtin_class('tuple'))
        self.set_seq(t, self.seq_of_items(items))
        return t

    def mk_list(self, items: List[Any]):
        t = self.alloc(builtin_class('list'))
        self.set_seq(t, self.seq_of_items(items))
        return t

    def seq_of_items(self, items: List[Any]):
        if not items:
            return z3.Empty(smt.SeqV)
        s = z3.Unit(items[0])
        for it in items[1:]:
            s = z3.Concat(s, z3.Unit(it))
        return s

    def get_seq(self, v):
        v = self.canon(v)
        seq = self.strip_fresh(self.st.seq) if self.is_old(v) else self.st.seq
        return smt.simp(z3.Select(seq, Val.r(v)))

    def set_seq(self, v, s) -> None:
        self.st.seq = z3.Store(self.st.seq, smt.simp(Val.r(v)), s)
        self.writes.append(('$seq', Val.r(v), ''))

    def seq_items(self, s) -> Optional[List[Any]]:
        """elements of a sequence term if its length is syntactically concrete"""
        s = smt.simp(s)
        n = smt.simp(z3.Length(s))
        if not z3.is_int_value(n):
            return None
        return [smt.simp(s[i]) for i in range(n.as_long())]

    def mk_dict(self, items: List[Tuple[Any, Any]]):
        d = self.alloc(builtin_class('dict'))
        arr = z3.K(Val, smt.ABSENT)
        r = Val.r(d)
        self.st.dct = z3.Store(self.st.dct, r, arr)
        self.st.dlen = z3.Store(self.st.dlen, r, z3.IntVal(0))
        for k, v in items:
            self.dict_set(d, k, v)
        return d

    def dict_arr(self, d):
        d = self.canon(d)
        dct = self.strip_fresh(self.st.dct) if self.is_old(d) else self.st.dct
        return smt.simp(z3.Select(dct, Val.r(d)))

    def dict_get(self, d, k):
        """value or ABSENT"""
        r = Val.r(d)
        kk = self.key_term(k)
        dct = self.strip_fresh(self.st.dct) if self.is_old(d) else self.st.dct
        darr = smt.simp(z3.Select(dct, r))
        v = smt.simp(z3.Select(darr, kk))
        if self.merged_dicts or self.base_facts:
            self.merged_member_fact(darr, kk)
        self.dict_probes.append((smt.simp(r), kk))
        self.link_dlen(smt.simp(r), kk)
        sid = smt.static_id(Val.ref(r))
        if sid is not None and sid >= 900_000:
            so = self.static_objs.get(sid)
            gd = getattr(self, 'global_dict_types', {})
            if isinstance(so, tuple) and (so[1], so[2]) in gd:
                self.assume(z3.Or(v == smt.ABSENT, self.type_formula(v, gd[(so[1], so[2])])))
        # a member found present means the dict is not empty
        self._add_axiom(z3.Implies(v != smt.ABSENT, z3.Select(self.st.dlen, r) >= 1))
        self._add_axiom(z3.Select(self.st.dlen, r) >= 0)
        self.bound_ref(v)
        self.json_closed(d, v)
        if getattr(self, 'norm_of', None):
            self.norm_member_fact(d, k, v)
        et = self.container_elem_type.get(smt.simp(d).get_id())
        if et is not None and not self.is_initial_read(v) and self.is_old(d):
            # typed field of a pre-existing container: the invariant speaks about the ENTRY heap - state it for the
            # entry value under this key (the solver relates it to the current value where nothing was stored)
            base = self.st.dct
            while z3.is_app(base) and base.decl().kind() == z3.Z3_OP_STORE:
                base = base.arg(0)
            v0 = smt.simp(z3.Select(z3.Select(base, r), kk))
            if not v0.eq(v) and self.is_initial_read(v0) and self.implied(v == v0):
                # nothing was stored under this key of this container: the current value IS the entry value - read
                # that (simpler) term instead, so typing and later reads through it stay canonical
                v = v0
                self.bound_ref(v)
        if et is not None and self.is_initial_read(v):
            if et.startswith(('list[', 'dict[', 'ddict[')) or et in ('list', 'dict'):
                self.apply_field_type(v, et)
            else:
                self._add_axiom(z3.Or(v == smt.ABSENT, self.type_formula(v, et)))
        return v

    def link_dlen(self, r, kk) -> None:
        """initial dict r: its length is at least the number of distinct constant keys found present
        (without this, models contain 'empty' dicts that have members, which no Python value realises)"""
        if smt.tag_of(kk) is None or not (z3.is_app(kk) and kk.num_args() == 1 and
                                          (z3.is_string_value(kk.arg(0)) or z3.is_int_value(kk.arg(0)))):
            if smt.tag_of(kk) != 'none':
                return
        groups = self.__dict__.setdefault('_probe_groups', {})
        if groups.get('__path__') is not self.pc:
            groups.clear()
            groups['__path__'] = self.pc
        g = groups.setdefault(r.get_id(), [])
        if any(k.eq(kk) for k in g):
            return
        g.append(kk)
        h0 = z3.Array('H_dict', smt.I, smt.DictV)
        l0 = z3.Array('H_dlen', smt.I, smt.I)
        cnt = z3.Sum([z3.If(z3.Select(z3.Select(h0, r), k) != smt.ABSENT, 1, 0) for k in g]) if len(g) > 1 else \
            z3.If(z3.Select(z3.Select(h0, r), g[0]) != smt.ABSENT, 1, 0)
        self._add_axiom(z3.Select(l0, r) >= cnt)

    def key_term(self, k):
        kd = self.kind_of(k)
        if kd == 'ref':
            c = self.class_of(k)
            if c is not None and c.builtin and c.name == 'tuple':
                # a tuple used as a dict key is compared STRUCTURALLY
                items = self.seq_items(self.get_seq(k))
                if items is None:
                    from .core import Unsupported
                    raise Unsupported('tuple of symbolic length used as a dict key')
                return self.tuple_key([self.key_term(x) for x in items])
        if kd in ('str', 'none', 'ref', 'int'):
            return smt.simp(k)
        return smt.simp(smt.key_of(k))

    def tuple_key(self, parts):
        """the dict key a tuple stands for: an uninterpreted constructor term, made injective (and distinct from every
        other kind of key) by axioms instantiated pairwise over the constructor terms this path creates"""
        n = len(parts)
        f = z3.Function(f'tupkey{n}', *([Val] * n), Val)
        t = smt.simp(f(*parts)) if n else z3.Const('tupkey0', Val)
        made = self.__dict__.setdefault('_tupkeys', {}).setdefault(n, [])
        if any(t.eq(u) for u, _ in made):
            return t
        # lives in a reserved id range: never an object, a class, a function or a scalar
        self._add_axiom(z3.And(Val.is_ref(t), Val.r(t) <= -3_000_000 - n))
        for u, uparts in made:
            same = z3.And(*[a == b for a, b in zip(parts, uparts)]) if n else z3.BoolVal(True)
            self._add_axiom((t == u) == same)
        made.append((t, list(parts)))
        return t

    def dict_set(self, d, k, v) -> None:
        r = Val.r(d)
        kk = self.key_term(k)
        arr = z3.Select(self.st.dct, r)
        old = z3.Select(arr, kk)
        n = z3.Select(self.st.dlen, r)
        self.st.dlen = z3.Store(self.st.dlen, r, smt.simp(n + z3.If(old == smt.ABSENT, 1, 0)))
        self.st.dct = z3.Store(self.st.dct, r, z3.Store(arr, kk, v))
        self.writes.append(('$dict', r, ''))

    def dict_del(self, d, k) -> None:
        r = Val.r(d)
        kk = self.key_term(k)
        arr = z3.Select(self.st.dct, r)
        old = z3.Select(arr, kk)
        n = z3.Select(self.st.dlen, r)
        self.st.dlen = z3.Store(self.st.dlen, r, smt.simp(n - z3.If(old == smt.ABSENT, 0, 1)))
        self.st.dct = z3.Store(self.st.dct, r, z3.Store(arr, kk, smt.ABSENT))
        self.writes.append(('$dict', r, ''))

    # ------------------------------------------------------------------ kinds
    def kind_of(self, v, force: bool = False) -> Optional[str]:
        t = smt.tag_of(v)
        if t is not None:
            return t
        t = self.kind_hint.get(smt.simp(v).get_id())
        if t is not None:
            return t
        c = self.class_of(v)
        if c is not None:
            return {'str': 'str', 'int': 'int', 'bool': 'bool', 'float': 'flt', 'NoneType': 'none'}.get(c.name, 'ref') \
                if c.builtin else 'ref'
        if not force:
            return None
        tags = ['none', 'bool', 'int', 'flt', 'str', 'ref']
        guards = [Val.is_none(v), Val.is_bool(v), Val.is_int(v), Val.is_flt(v), Val.is_str(v), Val.is_ref(v)]
        return tags[self.choose(guards)]

    def require_class(self, v, what: str = '') -> ClassInfo:
        c = self.class_of(v)
        if c is not None and c.builtin and c.name == 'object':
            c = None
        if c is None:
            # a bound the solver derived earlier under a prefix of the current path condition is still valid
            hit = self.cls_cache.get(smt.simp(v).get_id())
            if hit is not None and hit[0] <= len(self.pc):
                self.set_class(v, hit[1], exact=hit[2])
                return hit[1]
            # last resort: ask the solver for a unique class among those touched on this path
            if self.kind_of(v, force=True) != 'ref':
                c = self.class_of(v)
                if c is not None:
                    return c
            cands = []
            order = sorted(self.classes_used, reverse=True)
            # a model of the path condition names ONE class for v: only that class and its bases can be implied bounds
            guess = self.model_class_guess(v)
            if guess is not None:
                for K in guess.mro():
                    if K.name == 'object' or K.cid not in self.classes_used:
                        continue
                    if self.implied(self.sub_term(smt.cls_of(Val.r(v)), K)):
                        cands.append(K)
                        break                       # the most specific implied bound
                order = [] if cands else order
            for cid in order:
                K = self.static_objs[cid]
                if K.name == 'object':
                    continue
                if self.implied(self.sub_term(smt.cls_of(Val.r(v)), K)):
                    cands.append(K)
            if cands:
                best = cands[0]
                for K in cands:
                    if K.is_subclass(best):
                        best = K
                self.set_class(v, best, exact=False)
                self.cls_cache[smt.simp(v).get_id()] = (len(self.pc), best, False)
                return best
            # split by the classes this value was tested against with isinstance (upper bounds)
            vid = smt.simp(v).get_id()
            ks = []
            for term, K in self.isinst_terms.values():
                if smt.simp(term).get_id() == vid and K not in ks and not (K.builtin and K.name == 'object'):
                    ks.append(K)
            if ks:
                cidt = smt.cls_of(Val.r(v))
                guards = [self.sub_term(cidt, K) for K in ks]
                if not self.feasible(z3.And(*[z3.Not(g) for g in guards])):
                    K = ks[self.choose(guards)]
                    self.set_class(v, K, exact=False)
                    return K
            # type-case split over the (finitely many) exact classes the value can have on this path
            cid = smt.cls_of(Val.r(v))
            poss = []
            for kid in sorted(self.classes_used, reverse=True):
                K = self.static_objs[kid]
                if K.name in ('object', 'type', 'function'):
                    continue
                if self.feasible(cid == kid):
                    poss.append(K)
            if poss and len(poss) <= 6:
                rest = z3.And(*[cid != K.cid for K in poss])
                if not self.feasible(rest):
                    K = poss[self.choose([cid == K.cid for K in poss])]
                    self.set_class(v, K, exact=True)
                    return K
            self.unsupported(f'class of value unknown: {what} [{str(smt.simp(v)).replace(chr(10),' ')[-260:]}]')
        return c

    def model_class_guess(self, v):
        """the class some model of the current path condition gives to v (None if unknown there)"""
        m = self.model_cache[-1] if self.model_cache else None
        if m is None:
            s = self._sync_solver()
            if s.check() != z3.sat:
                return None
            try:
                m = s.model()
                self.model_cache.append(m)
            except z3.Z3Exception:
                return None
        try:
            cid = m.eval(smt.cls_of(Val.r(v)), model_completion=True)
        except z3.Z3Exception:
            return None
        if not z3.is_int_value(cid):
            return None
        K = self.static_objs.get(cid.as_long())
        from .index import ClassInfo
        return K if isinstance(K, ClassInfo) else None

    # ------------------------------------------------------------------ truthiness
    def truthy(self, v):
        """z3 Bool for bool(v); may fork for classes with __len__ / __bool__"""
        t = smt.tag_of(v)
        if t == 'none' or t == 'absent':
            return z3.BoolVal(False)
        if t == 'bool':
            return smt.simp(Val.b(v))
        if t == 'int':
            return smt.simp(Val.i(v) != 0)
        if t == 'flt':
            return smt.simp(Val.f(v) != 0)
        if t == 'str':
            return smt.simp(z3.Length(Val.s(v)) > 0)
        c = self.class_of(v)
        if t == 'ref' or (c is not None and not (c.builtin and c.name in ('str', 'int', 'bool', 'float', 'NoneType'))):
            return self.truthy_ref(v, c)
        scalar = z3.If(Val.is_none(v), z3.BoolVal(False),
                       z3.If(Val.is_bool(v), Val.b(v),
                             z3.If(Val.is_int(v), Val.i(v) != 0,
                                   z3.If(Val.is_flt(v), Val.f(v) != 0,
                                         z3.If(Val.is_str(v), z3.Length(Val.s(v)) > 0, z3.BoolVal(True))))))
        if self.implied(z3.Not(Val.is_ref(v))):
            return smt.simp(scalar)
        if self.branch(Val.is_ref(v)):
            return self.truthy_ref(v, None)
        return smt.simp(scalar)

    def truthy_ref(self, v, c: Optional[ClassInfo]):
        if self.static_of(v) is not None:
            return z3.BoolVal(True)
        r = Val.r(v)
        if c is None:
            return self.truthy_unknown_ref(v)
        if c.builtin:
            if c.name in ('list', 'tuple'):
                return smt.simp(z3.Length(z3.Select(self.st.seq, r)) > 0)
            if c.name in ('dict', 'defaultdict', 'set', 'frozenset'):
                self._add_axiom(z3.Select(self.st.dlen, r) >= 0)
                return smt.simp(z3.Select(self.st.dlen, r) > 0)
            if c.name == 'object':
                # JSON-like container or opaque object: list/tuple/dict by class id, else True
                cid = smt.cls_of(r)
                L, T, D = (builtin_class(n).cid for n in ('list', 'tuple', 'dict'))
                DD, SS, FS = (builtin_class(n).cid for n in ('defaultdict', 'set', 'frozenset'))
                for n in ('list', 'tuple', 'dict', 'defaultdict', 'set', 'frozenset'):
                    self.use_class(builtin_class(n))
                self._add_axiom(z3.Select(self.st.dlen, r) >= 0)
                is_map = z3.Or(cid == D, cid == DD, cid == SS, cid == FS)
                return smt.simp(z3.If(z3.Or(cid == L, cid == T), z3.Length(z3.Select(self.st.seq, r)) > 0,
                                      z3.If(is_map, z3.Select(self.st.dlen, r) > 0, z3.BoolVal(True))))
            return z3.BoolVal(True)
        # repo class: group the possible runtime classes by how they define truthiness
        groups: Dict[str, List[ClassInfo]] = {}
        for k in self.subclasses.get(c.qualname, [c]):
            lk = k.lookup('__bool__') or k.lookup('__len__')
            key = lk[1].qualname if lk and lk[0] == 'method' else ''
            groups.setdefault(key, []).append(k)
        if list(groups) == ['']:
            return z3.BoolVal(True)
        keys = sorted(groups)
        if len(keys) == 1:
            key = keys[0]
        else:
            guards = [z3.Or(*[smt.cls_of(r) == k.cid for k in groups[key]]) for key in keys]
            for ks in groups.values():
                for k in ks:
                    self.use_class(k)
            key = keys[self.choose(guards)]
        if key == '':
            return z3.BoolVal(True)
        fi = self.index.find(key)
        res = self.call_function(fi, [v], {})
        if fi.name == '__len__':
            return smt.simp(smt.int_of(res) != 0)
        return self.truthy(res)

    def truthy_unknown_ref(self, v):
        """truthiness of a reference whose class is not known statically: containers by class id,
        library classes with a constant __bool__ (UNSET) merged in, classes with __len__ forked"""
        r = Val.r(v)
        cid = smt.cls_of(r)
        for n in ('list', 'tuple', 'dict', 'defaultdict', 'set', 'frozenset'):
            self.use_class(builtin_class(n))
        L, T, D = (builtin_class(n).cid for n in ('list', 'tuple', 'dict'))
        DD, SS, FS = (builtin_class(n).cid for n in ('defaultdict', 'set', 'frozenset'))
        self._add_axiom(z3.Select(self.st.dlen, r) >= 0)
        generic = z3.If(z3.Or(cid == L, cid == T), z3.Length(z3.Select(self.st.seq, r)) > 0,
                        z3.If(z3.Or(cid == D, cid == DD, cid == SS, cid == FS), z3.Select(self.st.dlen, r) > 0,
                              z3.BoolVal(True)))
        for k in self.classes:
            if k.builtin:
                continue
            m = k.methods.get('__bool__') or k.methods.get('__len__')
            if m is None:
                continue
            self.use_class(k)
            subs = self.subclasses.get(k.qualname, [k])
            guard = z3.Or(*[cid == kk.cid for kk in subs])
            const = None
            if m.name == '__bool__':
                body = [b for b in m.node.body if not isinstance(b, ast.Expr)]
                if len(body) == 1 and isinstance(body[0], ast.Return) and isinstance(body[0].value, ast.Constant):
                    const = bool(body[0].value.value)
            if const is not None:
                generic = z3.If(guard, z3.BoolVal(const), generic)
                continue
            if self.implied(z3.Not(guard)):
                continue
            if self.branch(guard):
                self.set_class(v, k, exact=False)
                res = self.call_function(m, [v], {})
                return smt.simp(smt.int_of(res) != 0) if m.name == '__len__' else self.truthy(res)
        return smt.simp(generic)

    def is_initial_read(self, v) -> bool:
        """v is syntactically a read of the heap as it was on entry (no store on the way)"""
        v = smt.simp(v)
        if not (z3.is_app(v) and v.decl().kind() == z3.Z3_OP_SELECT):
            return False
        a = v.arg(0)
        if z3.is_app(a) and a.decl().kind() == z3.Z3_OP_SELECT:
            a = a.arg(0)
        return z3.is_const(a) and a.decl().kind() == z3.Z3_OP_UNINTERPRETED and a.decl().name() in ('H_dict', 'H_seq')

    def json_closed(self, container, v) -> None:
        """deep JSON-ness: a member/element read from a container that is JSON (on entry) is JSON"""
        if self.is_initial_read(v):
            self._add_axiom(z3.Implies(smt.isjson(container), z3.Or(v == smt.ABSENT, self.type_formula(v, 'json'))))

    def to_val_bool(self, b):
        return smt.simp(Val.bool(b))
