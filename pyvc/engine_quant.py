"""
Quantifiers without solver quantifiers (DESIGN.md §3.2):

* every universally quantified fact over a sequence S is kept as a QFact and *instantiated by the
  generator* at the index terms that occur for S on the path (element reads, loop indices, skolem
  witnesses);
* `all(P(x) for x in S)` becomes a fresh Bool b with  ¬b ⇒ ¬P(S[w])  for a fresh witness w (this is the
  skolemised goal) and  b ⇒ P(S[t])  instantiated at every index term t of S (hypothesis use);
* comprehensions over symbolic-length sequences are summarised:  |R| = |S|  and  R[t] = E(S[t])  is
  instantiated at index terms; "first raising element raises" is a second outcome with a witness index.
"""
from __future__ import annotations

import ast
from typing import Any, Callable, Dict, List, Optional, Tuple

import z3

from . import smt
from .smt import Val
from .core import Frame, GenObj, Infeasible, PathEnd, PyRaise, Unsupported
from .builtins_model import builtin_class


class QFact:
    def __init__(self, name: str, inst: Callable[[Any], None]):
        self.name = name
        self.inst = inst
        self.done: set = set()


class QuantMixin:
    # registry (reset per path)
    def quant_reset(self) -> None:
        self.q_terms: Dict[int, List[Any]] = {}       # seq term id -> index terms
        self.q_facts: Dict[int, List[QFact]] = {}     # seq term id -> facts
        self.q_alias: Dict[int, List[Any]] = {}       # seq term id -> related sequences sharing the index domain
        self.q_seqs: Dict[int, Any] = {}
        self.quant_ctx: List[Any] = []
        self.seq_elem_type: Dict[int, str] = {}

    def norm_seq(self, s):
        """canonical form of a sequence term: H_seq[...][r(t)] with t canonicalised (havoc constants replaced by
        the terms they were assumed equal to) and stores at fresh ids stripped for pre-existing owners"""
        s = smt.simp(s)
        if z3.is_app(s) and s.decl().kind() == z3.Z3_OP_SELECT and s.num_args() == 2:
            arr, idx = s.arg(0), s.arg(1)
            if z3.is_app(idx) and idx.decl().name() == 'r' and idx.num_args() == 1:
                t = idx.arg(0)
                t2 = self.canon(t)
                if self.is_old(t2) or self.is_old(t):
                    arr = self.strip_fresh(arr)
                s = smt.simp(z3.Select(arr, Val.r(t2)))
        return s

    def _seq_key(self, s) -> int:
        s = self.norm_seq(s)
        k = s.get_id()
        if k not in self.q_seqs:
            self.q_seqs[k] = s
            # sequences registered earlier under a form that has since become canonicalisable
            for k0, s0 in list(self.q_seqs.items()):
                if k0 != k and self.norm_seq(s0).get_id() == k:
                    self.q_alias.setdefault(k0, []).append(k)
                    self.q_alias.setdefault(k, []).append(k0)
        return k

    def _closure(self, key: int) -> List[int]:
        seen, todo = [], [key]
        while todo:
            k = todo.pop()
            if k in seen:
                continue
            seen.append(k)
            for other in self.q_alias.get(k, []):
                todo.append(other)
        return seen

    def link_seqs(self, a, b) -> None:
        """a and b are indexed by the same domain (b[i] is derived from a[i])"""
        ka, kb = self._seq_key(a), self._seq_key(b)
        self.q_alias.setdefault(ka, []).append(kb)
        self.q_alias.setdefault(kb, []).append(ka)
        for t in list(self.q_terms.get(ka, [])):
            self.note_index(b, t)
        for t in list(self.q_terms.get(kb, [])):
            self.note_index(a, t)

    def note_index(self, s, t) -> None:
        """index term t is used on sequence s: instantiate every fact over s (and linked sequences) at t"""
        t = smt.simp(t)
        if z3.is_int_value(t) and False:
            return
        todo = []
        for k in self._closure(self._seq_key(s)):
            terms = self.q_terms.setdefault(k, [])
            if any(x.eq(t) for x in terms):
                continue
            terms.append(t)
            todo.extend(self.q_facts.get(k, []))
        # facts that DEFINE elements (maps, hypotheses) before facts that evaluate conditions on them (filters)
        for f in [f for f in todo if not f.name.startswith('filter')] + [f for f in todo if f.name.startswith('filter')]:
            self._inst(f, t)
        self.note_parts(s, t)

    def note_parts(self, s, t) -> None:
        """an index into a concatenation is an index into one of its parts: instantiate their facts too"""
        s = smt.simp(s)
        if z3.is_app(s) and s.decl().kind() == z3.Z3_OP_SEQ_CONCAT:
            off = z3.IntVal(0)
            for part in s.children():
                ti = smt.simp(t - off)
                if not (z3.is_app(part) and part.decl().kind() == z3.Z3_OP_SEQ_UNIT):
                    self.note_index(part, ti)
                    # the element of the whole at t is the element of this part at t - offset (inside the part)
                    self._add_axiom(z3.Implies(z3.And(ti >= 0, ti < z3.Length(part)),
                                               smt.elem_at(s, t) == smt.elem_at(part, ti)))
                off = smt.simp(off + z3.Length(part))

    def elem_generic(self, s, t):
        """element read at a GENERIC index (used while summarising a comprehension / predicate once): only
        hypotheses (`all` / `any` facts, element typing) are instantiated at it, never other summaries, and
        the index is not remembered as a term of interest"""
        v = self.nth(s, t)
        self.bound_ref(v)
        et = self.seq_elem_type.get(smt.simp(s).get_id())
        if et is not None:
            self._add_axiom(z3.Implies(z3.And(t >= 0, t < z3.Length(s)), self.type_formula(v, et)))
            self.note_elem_cls(v, et)
        k0 = self._seq_key(s)
        for k in self._closure(k0):
            for f in list(self.q_facts.get(k, [])):
                # hypotheses everywhere; structural facts (map / filter) only of this very sequence
                if f.name in ('all', 'any') or k == k0:
                    self._inst(f, smt.simp(t))
        self.note_parts_generic(s, t)
        return v

    def note_parts_generic(self, s, t) -> None:
        s = smt.simp(s)
        if z3.is_app(s) and s.decl().kind() == z3.Z3_OP_SEQ_CONCAT:
            off = z3.IntVal(0)
            for part in s.children():
                ti = smt.simp(t - off)
                if not (z3.is_app(part) and part.decl().kind() == z3.Z3_OP_SEQ_UNIT):
                    pv = self.elem_generic(part, ti)
                    self._add_axiom(z3.Implies(z3.And(ti >= 0, ti < z3.Length(part)), smt.elem_at(s, t) == pv))
                off = smt.simp(off + z3.Length(part))

    MAX_INST_DEPTH = 4

    def _inst(self, f: QFact, t) -> None:
        if t.get_id() in f.done:
            return
        # nested quantifiers (forall-exists) create a new witness index per instance, which would trigger the enclosing
        # universal fact again, and so on: instantiation chains are cut at a fixed depth (sound: fewer facts)
        d = getattr(self, '_inst_depth', 0)
        if d >= self.MAX_INST_DEPTH:
            return
        f.done.add(t.get_id())
        self._inst_depth = d + 1
        try:
            f.inst(t)
        finally:
            self._inst_depth = d

    def add_qfact(self, s, name: str, inst: Callable[[Any], None]) -> QFact:
        f = QFact(name, inst)
        k = self._seq_key(s)
        self.q_facts.setdefault(k, []).append(f)
        for kk in self._closure(k):
            for t in list(self.q_terms.get(kk, [])):
                self._inst(f, t)
        return f

    def elem(self, s, t):
        """s[t] with the read registered as an index term"""
        v = self.nth(s, t)
        self.note_index(s, t)
        self.bound_ref(v)
        et = self.seq_elem_type.get(smt.simp(s).get_id())
        if et is not None:
            self._add_axiom(z3.Implies(z3.And(t >= 0, t < z3.Length(s)), self.type_formula(v, et)))
            self.note_elem_cls(v, et)
        return v

    def note_elem_cls(self, v, et: str) -> None:
        """class hint of an element of a typed sequence: unlike hints learnt from the guards of one sub-path it stays
        valid wherever the element term is met again (later instances of quantified facts)"""
        if '|' in et or et.startswith(('opt:', 'seq[', 'type<=', 'oneof:')) or et in ('any', 'json', 'str', 'int', 'bool',
                                                                                   'none', 'number', 'encodable'):
            return
        try:
            K = self.resolve_class(et.lstrip('='))
        except Exception:
            return
        self.elem_cls.setdefault(smt.simp(v).get_id(), K)

    def nth(self, s, t):
        """element read as a term: concrete positions of concrete sequences simplify to the element; otherwise the
        uninterpreted elem_at(s, t), tied to seq.nth inside the bounds (keeps z3's nth_i / nth_u case split out of
        the engine's terms)"""
        s = smt.simp(s)
        t = smt.simp(t)
        direct = smt.simp(s[t])
        if not (z3.is_app(direct) and direct.decl().kind() == z3.Z3_OP_ITE) and \
                not (z3.is_app(direct) and direct.decl().name() in ('seq.nth_i', 'seq.nth_u', 'seq.nth')):
            return direct
        v = smt.elem_at(s, t)
        self._add_axiom(z3.Implies(z3.And(t >= 0, t < z3.Length(s)), v == s[t]))
        # deep JSON-ness: an element of a JSON array (as it was on entry) is JSON
        if z3.is_app(s) and s.decl().kind() == z3.Z3_OP_SELECT and z3.is_const(s.arg(0)) and \
                s.arg(0).decl().name() == 'H_seq' and z3.is_app(s.arg(1)) and s.arg(1).decl().name() == 'r':
            owner = s.arg(1).arg(0)
            self._add_axiom(z3.Implies(z3.And(smt.isjson(owner), t >= 0, t < z3.Length(s)),
                                       self.type_formula(v, 'json', hint=False)))
        return v

    # ------------------------------------------------------------------ all / any over generator expressions
    def special_all(self, e: ast.Call, fr: Frame):
        return self._all_any(e, fr, True)

    def special_any(self, e: ast.Call, fr: Frame):
        return self._all_any(e, fr, False)

    def desugar_map(self, arg, fr: Frame):
        """map(f, xs) as the argument of all()/any() is the generator (f(x) for x in xs); with f =
        operator.attrgetter('a') the element is x.a  (semantics-preserving desugaring on the AST)"""
        if not (isinstance(arg, ast.Call) and isinstance(arg.func, ast.Name) and arg.func.id == 'map'
                and len(arg.args) == 2 and not arg.keywords and not fr.has('map')):
            return arg
        f, xs = arg.args
        x = '_map_x'
        elt = None
        if isinstance(f, ast.Call) and len(f.args) == 1 and not f.keywords and isinstance(f.args[0], ast.Constant) \
                and isinstance(f.args[0].value, str) and '.' not in f.args[0].value:
            so = self.static_of(self.ev(f.func, fr))
            if getattr(so, 'name', None) == 'operator.attrgetter':
                elt = ast.Attribute(value=ast.Name(id=x, ctx=ast.Load()), attr=f.args[0].value, ctx=ast.Load())
        if elt is None:
            elt = ast.Call(func=f, args=[ast.Name(id=x, ctx=ast.Load())], keywords=[])
        g = ast.GeneratorExp(elt=elt, generators=[ast.comprehension(target=ast.Name(id=x, ctx=ast.Store()), iter=xs,
                                                                    ifs=[], is_async=0)])
        ast.copy_location(g, arg)
        ast.fix_missing_locations(g)
        return g

    def _all_any(self, e: ast.Call, fr: Frame, is_all: bool):
        arg = self.desugar_map(e.args[0], fr)
        if not isinstance(arg, (ast.GeneratorExp, ast.ListComp)) or len(arg.generators) != 1:
            v = self.ev(arg, fr)
            return (self.bi_all if is_all else self.bi_any)([v], {})
        gen = arg.generators[0]
        itv = self.ev(gen.iter, fr)
        items = self.iter_items(itv, gen.iter)
        rng = None
        so = self.static_of(itv)
        if items is None and isinstance(so, GenObj) and so.kind == 'range' and len(so.payload) == 1:
            rng = smt.int_of(so.payload[0])
        if items is not None:
            for x in items:
                sub = Frame(fr.func, fr.module, parent=fr, cls=fr.cls)
                sub.is_spec = fr.is_spec
                self.assign(gen.target, x, sub)
                if not all(self.branch(self.truthy(self.ev(c, sub))) for c in gen.ifs):
                    continue
                t = self.truthy(self.ev(arg.elt, sub))
                if is_all and not self.branch(t):
                    return smt.FALSE
                if not is_all and self.branch(t):
                    return smt.TRUE
            return smt.mk_bool(is_all)
        if rng is not None:
            # quantification over range(n): the index domain is shared by all range quantifiers
            S = z3.Const('INT_DOMAIN', smt.SeqV)
            n = rng
        else:
            sv = self.to_seq_val(itv, gen.iter)
            S = self.get_seq(sv)
            n = z3.Length(S)
        snap = self.st.snapshot()
        ctx = list(self.quant_ctx)          # range assumptions of enclosing quantifiers (nested use)
        if self.sub_bases:
            # ... and the guards of the clause evaluation this quantifier occurs in (e.g. `isinstance(x, list) and
            # all(...)`): the predicate is only meaningful, and only used, under them
            b0 = self.sub_bases[0]
            ctx += [c for c, ax in zip(self.pc[b0:], self.pc_axiom[b0:]) if not ax]
        ctx_f = z3.And(*ctx) if ctx else z3.BoolVal(True)

        def P(i):
            """z3 Bool: the element predicate at index i (in the heap as it is now)"""
            cur = self.st.snapshot()
            self.st.restore(snap)
            self.quant_ctx.append(z3.And(i >= 0, i < n))
            try:
                def thunk():
                    if not fr.is_spec:
                        # quantifier in CODE: obligations raised while evaluating the element predicate (callee
                        # preconditions) are proved for indices inside the sequence only
                        self.assume(z3.And(i >= 0, i < n))
                    sub = Frame(fr.func, fr.module, parent=fr, cls=fr.cls)
                    sub.is_spec = fr.is_spec
                    gen_run = z3.is_const(i) and i.decl().name().startswith('i*')
                    self.assign(gen.target, smt.simp(Val.int(i)) if rng is not None else
                                (self.elem_generic(S, i) if gen_run else self.elem(S, i)), sub)
                    for c in gen.ifs:
                        if not self.branch(self.truthy(self.ev(c, sub))):
                            return z3.BoolVal(is_all)
                    return self.truthy(self.ev(arg.elt, sub))
                return self.merged_truth(thunk, 'quantified element predicate',
                                         assuming=z3.And(i >= 0, i < n, ctx_f))
            finally:
                self.quant_ctx.pop()
                self.st.restore(cur)

        P_slow = P
        gen_cache: Dict[str, Any] = {}

        def P(i):
            """evaluate the predicate ONCE at a generic index and instantiate by substitution when the
            evaluation is clean (created no fresh symbol, allocation or nested quantifier)"""
            if 'term' not in gen_cache and 'dirty' not in gen_cache:
                istar = z3.Const(f'i*{len(self.q_seqs)}_{self.fresh_counter}', smt.I)
                c0, r0, q0 = self.fresh_counter, self.next_ref, sum(len(v) for v in self.q_facts.values())
                n0 = len(self.pc)
                t = P_slow(istar)
                if (self.fresh_counter, self.next_ref, sum(len(v) for v in self.q_facts.values())) == (c0, r0, q0):
                    gen_cache['term'], gen_cache['istar'] = t, istar
                    # facts instantiated lazily while reading at the generic index (member facts of abstract dicts,
                    # element typing ...) belong to every instance: keep them for substitution
                    probe = z3.Int('i*probe')
                    gen_cache['axioms'] = [c for c, ax in zip(self.pc[n0:], self.pc_axiom[n0:])
                                           if ax and not z3.substitute(c, (istar, probe)).eq(c)]
                else:
                    gen_cache['dirty'] = True
            if 'term' in gen_cache:
                if not i.eq(gen_cache['istar']):
                    for c in gen_cache.get('axioms', ()):
                        self._add_axiom(smt.simp(z3.substitute(c, (gen_cache['istar'], i))))
                return smt.simp(z3.substitute(gen_cache['term'], (gen_cache['istar'], i)))
            return P_slow(i)

        b = self.fresh('q', z3.BoolSort())
        w = self.fresh('w', smt.I)
        if is_all:
            # skolemised negation:  not b  =>  a counterexample index exists
            pw = P(w)
            self._add_axiom(z3.Implies(z3.And(ctx_f, z3.Not(b)), z3.And(w >= 0, w < n, z3.Not(pw))))
            self.add_qfact(S, 'all', lambda t: self._add_axiom(
                z3.Implies(z3.And(ctx_f, b), z3.Implies(z3.And(t >= 0, t < n), P(t)))))
        else:
            pw = P(w)
            self._add_axiom(z3.Implies(z3.And(ctx_f, b), z3.And(w >= 0, w < n, pw)))
            self.add_qfact(S, 'any', lambda t: self._add_axiom(
                z3.Implies(z3.And(ctx_f, z3.Not(b)), z3.Implies(z3.And(t >= 0, t < n), z3.Not(P(t))))))
        self.note_index(S, w)
        return smt.simp(Val.bool(b))

    # ------------------------------------------------------------------ comprehensions
    def ev_ListComp(self, e, fr):
        return self.comprehension(e, fr, 'list')

    def ev_GeneratorExp(self, e, fr):
        return self.comprehension(e, fr, 'tuple')

    def ev_SetComp(self, e, fr):
        items = self.comp_concrete(e, fr)
        if items is None:
            self.unsupported('set comprehension over symbolic iterable', e)
        return self.mk_set(items)

    def ev_DictComp(self, e, fr):
        h = getattr(self, 'dictcomp_hook', None)
        gen = e.generators[0]
        if len(e.generators) != 1:
            self.unsupported('nested dict comprehension', e)
        itv = self.ev(gen.iter, fr)
        items = self.iter_items(itv, gen.iter)
        if items is None:
            return self.dictcomp_symbolic(e, fr, itv)
        d = self.mk_dict([])
        for x in items:
            sub = Frame(fr.func, fr.module, parent=fr, cls=fr.cls)
            self.assign(gen.target, x, sub)
            if not all(self.branch(self.truthy(self.ev(c, sub))) for c in gen.ifs):
                continue
            self.dict_set(d, self.ev(e.key, sub), self.ev(e.value, sub))
        return d

    def dictcomp_symbolic(self, e, fr, itv):
        """{K(x): V(x) for x in S} over a symbolic S (no filter): the keys and the values are the two list comprehensions
        (so exceptions / obligations of K and V surface as usual); the result is a new dict D with
            every K(S[i]) is a key of D;   D[k] present  =>  k = K(S[j]) and D[k] = V(S[j]) for some j  (Skolem idx(k))
        ('last one wins' among equal keys is not modelled: D[k] is the value of SOME element with that key)"""
        gen = e.generators[0]
        if gen.ifs:
            self.unsupported('filtered dict comprehension over symbolic iterable', e)
        mk = lambda elt: ast.copy_location(ast.ListComp(elt=elt, generators=e.generators), e)   # noqa: E731
        kl, vl = mk(e.key), mk(e.value)
        ast.fix_missing_locations(kl)
        ast.fix_missing_locations(vl)
        KS = self.get_seq(self.comprehension(kl, fr, 'list'))
        VS = self.get_seq(self.comprehension(vl, fr, 'list'))
        n = z3.Length(KS)
        self._add_axiom(z3.Length(VS) == n)
        D = self.alloc(builtin_class('dict'))
        arr = self.fresh('dcomp', smt.DictV)
        ln = self.fresh('dclen', smt.I)
        self._add_axiom(z3.And(ln >= 0, ln <= n, z3.Implies(n > 0, ln >= 1)))
        r = smt.simp(Val.r(D))
        self.st.dct = z3.Store(self.st.dct, r, arr)
        self.st.dlen = z3.Store(self.st.dlen, r, ln)
        idx = z3.Function(f'dc_idx_{self.fresh_counter}', Val, smt.I)

        def member_fact(kk):
            if getattr(self, '_in_present', False):
                return
            self._in_present = True
            try:
                member_fact_(kk)
            finally:
                self._in_present = False

        def member_fact_(kk):
            v = z3.Select(arr, kk)
            j = idx(kk)
            self._add_axiom(z3.Implies(v != smt.ABSENT, z3.And(j >= 0, j < n, v == smt.elem_at(VS, j),
                                                                smt.key_of(smt.elem_at(KS, j)) == kk)))
            self.note_index(VS, smt.simp(j))
            self.note_index(KS, smt.simp(j))
        self.base_facts[arr.get_id()] = member_fact

        def inst(i):
            inr = z3.And(i >= 0, i < n)
            if z3.is_false(smt.simp(inr)):
                return
            self._add_axiom(z3.Implies(inr, z3.Select(arr, smt.key_of(smt.elem_at(KS, i))) != smt.ABSENT))
        self.add_qfact(KS, 'dictcomp', inst)
        self.link_seqs(KS, VS)
        return D

    def comp_concrete(self, e, fr) -> Optional[List[Any]]:
        if len(e.generators) != 1:
            self.unsupported('nested comprehension', e)
        gen = e.generators[0]
        itv = self.ev(gen.iter, fr)
        items = self.iter_items(itv, gen.iter)
        if items is None:
            return None
        out = []
        for x in items:
            sub = Frame(fr.func, fr.module, parent=fr, cls=fr.cls)
            sub.is_spec = fr.is_spec
            self.assign(gen.target, x, sub)
            if not all(self.branch(self.truthy(self.ev(c, sub))) for c in gen.ifs):
                continue
            out.append(self.ev(e.elt, sub))
        return out

    def comprehension(self, e, fr, kind: str):
        if len(e.generators) != 1:
            self.unsupported('nested comprehension', e)
        gen = e.generators[0]
        itv = self.ev(gen.iter, fr)
        items = self.iter_items(itv, gen.iter)
        if items is not None:
            out = []
            for x in items:
                sub = Frame(fr.func, fr.module, parent=fr, cls=fr.cls)
                sub.is_spec = fr.is_spec
                self.assign(gen.target, x, sub)
                if not all(self.branch(self.truthy(self.ev(c, sub))) for c in gen.ifs):
                    continue
                out.append(self.ev(e.elt, sub))
            return self.mk_list(out) if kind == 'list' else self.mk_tuple(out)
        sv = self.to_seq_val(itv, gen.iter)
        S = self.get_seq(sv)
        h = getattr(self, 'comp_hook', None)
        if h is not None and not fr.is_spec:
            h(e, fr, S)
        if gen.ifs:
            return self.filter_comprehension(e, fr, kind, S)
        return self.map_comprehension(e, fr, kind, S)

    def eval_elt(self, e, fr, x):
        gen = e.generators[0]
        sub = Frame(fr.func, fr.module, parent=fr, cls=fr.cls)
        sub.is_spec = fr.is_spec
        self.assign(gen.target, x, sub)
        return self.ev(e.elt, sub)

    def map_comprehension(self, e, fr, kind: str, S):
        """[E(x) for x in S], |S| symbolic.  Outcomes: every element evaluates (summary with lazily
        instantiated element facts) | the first raising element raises (witness index j)."""
        n = z3.Length(S)
        pure = self.try_pure_map(e, fr, kind, S)
        if pure is not None:
            return pure
        return self.skolem_map(e, fr, kind, S)

    def new_symbols(self, terms, cnt0: int):
        """uninterpreted constants created after counter value cnt0 that occur in the terms"""
        out = {}
        seen = set()
        todo = list(terms)
        while todo:
            x = todo.pop()
            if x.get_id() in seen:
                continue
            seen.add(x.get_id())
            if z3.is_const(x) and x.decl().kind() == z3.Z3_OP_UNINTERPRETED:
                nm = x.decl().name()
                if '!' in nm:
                    tail = nm.rsplit('!', 1)[1]
                    if tail.isdigit() and int(tail) > cnt0 and not nm.startswith('g!'):
                        out[nm] = x
                continue
            if z3.is_app(x):
                todo.extend(x.children())
        return out

    def mentions_fresh_ref(self, terms, ref0: int) -> bool:
        seen = set()
        todo = list(terms)
        while todo:
            x = todo.pop()
            if x.get_id() in seen:
                continue
            seen.add(x.get_id())
            if z3.is_app(x) and x.decl().name() == 'ref' and x.num_args() == 1 and z3.is_int_value(x.arg(0)):
                if x.arg(0).as_long() >= ref0 and x.arg(0).as_long() >= smt.FRESH_BASE:
                    return True
                continue
            if z3.is_app(x):
                todo.extend(x.children())
        return False

    def skolem_map(self, e, fr, kind: str, S):
        """[E(x) for x in S], general case: E is evaluated ONCE on the generic element S[i*] (contracts of
        callees applied, scratch ghost trace when effectful).  Every symbol the run creates becomes a Skolem
        function of the index, so the facts about element i* generalise to any index by substitution:
            normal completion:  |R| = |S|,  forall i. not raises(i) and  R[i] is one of the returning values
            raising:            a witness index j with raises(j); the exception is the run's exception at j
        Elements that allocate objects themselves (inlined constructors) are outside this summary."""
        n = z3.Length(S)
        effectful = (not fr.is_spec) and any(isinstance(x, (ast.Call, ast.Await)) for x in ast.walk(e.elt))
        istar = self.fresh('istar', smt.I)
        c0, r0 = self.fresh_counter, self.next_ref
        base = len(self.pc)
        inr = z3.And(istar >= 0, istar < n)
        saved_ghost = dict(self.st.ghost)
        if effectful:
            self.scratch_ghost()
        c0 = self.fresh_counter

        def thunk():
            self.assume(inr)
            return self.eval_elt(e, fr, self.elem_generic(S, istar))
        try:
            rs = self.sub_explore(thunk)
        finally:
            self.st.ghost = saved_ghost
        new_axioms = [c for c, ax in zip(self.pc[base:], self.pc_axiom[base:]) if ax]
        rets = [(g, v) for g, k, v, _ in rs if k == 'ret']
        raises = [(g, v) for g, k, v, _ in rs if k == 'raise']
        terms = [t for g, v in rets + raises for t in (g, v)] + new_axioms
        if self.mentions_fresh_ref([v for _, v in rets], r0):
            self.unsupported('comprehension element allocates its own result object (no summary)', e)
        syms = self.new_symbols(terms, c0)
        subst0 = []
        for nm, c in syms.items():
            f = z3.Function(f'sk_{nm}', smt.I, c.sort())
            subst0.append((c, f(istar)))

        def at(term, t):
            x = z3.substitute(term, *subst0) if subst0 else term
            return smt.simp(z3.substitute(x, (istar, t)))

        raise_guard = z3.Or(*[g for g, _ in raises]) if raises else z3.BoolVal(False)
        options = [z3.BoolVal(True)] + ([n > 0] if raises else [])
        which = self.choose(options) if len(options) > 1 else 0
        if which == 1:
            j = self.fresh('j', smt.I)
            self.assume(z3.And(j >= 0, j < n))
            self.note_index(S, j)
            for c in new_axioms:
                self._add_axiom(at(c, j))
            k = self.choose([at(g, j) for g, _ in raises])
            exc = at(raises[k][1], j)
            c = self.class_of(raises[k][1])
            if c is not None:
                self.set_class(exc, c, exact=smt.simp(raises[k][1]).get_id() in self.known_cls)
            raise PyRaise(exc, 'element of a comprehension')
        R = self.fresh('R', smt.SeqV)
        self._add_axiom(z3.Length(R) == n)
        out = self.alloc(builtin_class('list' if kind == 'list' else 'tuple'))
        self.set_seq(out, R)
        ret_cls = [self.class_of(v) for _, v in rets]

        def inst(t):
            in_range = z3.And(t >= 0, t < n)
            if z3.is_false(smt.simp(in_range)):
                return
            for c in new_axioms:
                self._add_axiom(z3.Implies(in_range, at(c, t)))
            rv = smt.elem_at(R, t)
            self._add_axiom(z3.Implies(in_range, rv == R[t]))
            if raises:
                self._add_axiom(z3.Implies(in_range, z3.Not(at(raise_guard, t))))
            if rets:
                self._add_axiom(z3.Implies(in_range, z3.Or(*[z3.And(at(g, t), rv == at(v, t)) for g, v in rets])))
                cs = set(c for c in ret_cls if c is not None)
                if len(cs) == 1 and None not in ret_cls:
                    self.hint_cls.setdefault(smt.simp(rv).get_id(), next(iter(cs)))
            else:
                self._add_axiom(z3.Not(in_range))
        self.link_seqs(S, R)
        self.add_qfact(S, 'map', inst)
        if effectful:
            self.havoc_ghost('trace')
        return out

    def scratch_ghost(self) -> None:
        n = self.fresh('scr_len', smt.I)
        self._add_axiom(n >= 0)
        self.st.ghost['tr_len'] = n
        for f in self.TRACE_FIELDS:
            self.st.ghost['tr_' + f] = self.fresh('scr_' + f, z3.ArraySort(smt.I, Val))

    def try_pure_map(self, e, fr, kind: str, S):
        """[E(x) for x in S] where E is pure, total and single-path on a generic element: the result is the
        sequence constant determined by (E's symbolic value on the generic element, S) - two comprehensions
        computing the same thing denote the SAME term - and element facts are instantiated by substitution"""
        import hashlib
        n = z3.Length(S)
        istar = z3.Const('i*map', smt.I)
        c0, r0 = self.fresh_counter, self.next_ref
        q0 = sum(len(v) for v in self.q_facts.values())
        w0 = len(self.writes)
        g0 = dict(self.st.ghost)
        inr = z3.And(istar >= 0, istar < n)

        def thunk():
            self.assume(inr)
            return self.eval_elt(e, fr, self.elem_generic(S, istar))
        try:
            rs = self.sub_explore(thunk)
        except Unsupported:
            return None
        clean = (self.fresh_counter, self.next_ref, sum(len(v) for v in self.q_facts.values())) == (c0, r0, q0)
        rets = [r for r in rs if r[1] == 'ret']
        raises = [r for r in rs if r[1] == 'raise' and self.feasible(r[0])]
        self.st.ghost = g0
        del self.writes[w0:]
        if not clean or raises or len(rets) != 1:
            return None
        guard, _, term, st_after = rets[0]
        if not smt.simp(guard).eq(smt.simp(inr)):
            return None
        term = smt.simp(term)
        key = hashlib.sha1((term.sexpr() + '|' + smt.simp(S).sexpr()).encode()).hexdigest()[:12]
        R = z3.Const(f'M_{key}', smt.SeqV)
        self._add_axiom(z3.Length(R) == n)
        out = self.alloc(builtin_class('list' if kind == 'list' else 'tuple'))
        self.set_seq(out, R)

        def inst(t):
            v = smt.simp(z3.substitute(term, (istar, t)))
            self._add_axiom(z3.Implies(z3.And(t >= 0, t < n), z3.And(R[t] == v, smt.elem_at(R, t) == v,
                                                                   smt.elem_at(S, t) == S[t])))
        self.link_seqs(S, R)
        self.add_qfact(S, 'pure-map', inst)
        return out

    def adopt_fresh_effects(self, st_after) -> None:
        """effects of evaluating one generic element: stores into objects allocated by that evaluation
        are kept (they cannot conflict with anything else); other writes are not supported here"""
        for name, arr in st_after.attrs.items():
            self.st.attrs[name] = arr
        self.st.dct, self.st.dlen, self.st.seq = st_after.dct, st_after.dlen, st_after.seq

    def filter_comprehension(self, e, fr, kind: str, S):
        """[E(x) for x in S if C(x)], |S| symbolic: R is the order-preserving image of the elements that pass.
        pos : index in R -> index in S (strictly increasing), rank : passing index in S -> index in R.
        All facts are instantiated at index terms (no quantifier reaches the solver):
          q in [0,|R|)  =>  0 <= pos(q) < |S|  and  C(S[pos q])  and  R[q] = E(S[pos q])
          p in [0,|S|) and C(S[p])  =>  0 <= rank(p) < |R|  and  pos(rank p) = p
          q < q'  =>  pos(q) < pos(q')
        C and E must be pure and total on the elements (an element that can raise is unsupported)."""
        gen = e.generators[0]
        n = z3.Length(S)
        R = self.fresh('F', smt.SeqV)
        m = z3.Length(R)
        self.fresh_counter += 1
        pos = z3.Function(f'pos!{self.fresh_counter}', smt.I, smt.I)
        rank = z3.Function(f'rank!{self.fresh_counter}', smt.I, smt.I)
        self._add_axiom(m <= n)
        out = self.alloc(builtin_class('list' if kind == 'list' else 'tuple'))
        self.set_seq(out, R)
        snap_frame = fr
        snap = self.st.snapshot()

        def cond_and_value(x, under):
            """(z3 Bool passes, Val value) for element x, evaluated in the state at comprehension time, under
            the assumption `under` (the index is in range)"""
            cur = self.st.snapshot()
            self.st.restore(snap)
            try:
                def thunk():
                    self.assume(under)
                    sub = Frame(snap_frame.func, snap_frame.module, parent=snap_frame, cls=snap_frame.cls)
                    sub.is_spec = snap_frame.is_spec
                    self.assign(gen.target, x, sub)
                    ok = z3.BoolVal(True)
                    for c in gen.ifs:
                        ok = z3.And(ok, self.truthy(self.ev(c, sub)))
                    return self.mk_tuple([smt.simp(Val.bool(ok)), self.ev(e.elt, sub)])
                rs = self.sub_explore(thunk, pure=True)
            finally:
                self.st.restore(cur)
            conds, vals = [], []
            for guard, kind_, v, st_after in rs:
                if kind_ == 'raise':
                    if self.feasible_precise(z3.And(guard, under)):
                        c = self.class_of(v)
                        raise Unsupported(f'element of a filtering comprehension can raise {c.name if c else "?"} '
                                          f'for element {str(smt.simp(x))[:80]}')
                    continue
                sq = smt.simp(z3.Select(st_after.seq, Val.r(v)))
                conds.append((guard, smt.simp(Val.b(sq[0]))))
                vals.append((guard, smt.simp(sq[1])))
            passes = z3.Or(*[z3.And(g, c) for g, c in conds]) if conds else z3.BoolVal(False)
            return smt.simp(passes), vals

        r_terms: List[Any] = []

        def nest(t) -> int:
            """nesting depth of pos / rank applications (instantiation is cut off beyond a small depth)"""
            d = 0
            while z3.is_app(t) and t.num_args() == 1 and t.decl().name() in (pos.name(), rank.name()):
                d += 1
                t = t.arg(0)
            return d

        def inst_R(q):
            inr = z3.And(q >= 0, q < m)
            p = pos(q)
            self._add_axiom(z3.Implies(inr, z3.And(p >= 0, p < n)))
            if nest(p) <= 3:
                self.note_index(S, p)          # facts about the source element first (its class, its value)
            x = self.nth(S, p)
            passes, vals = cond_and_value(x, z3.And(inr, p >= 0, p < n))
            self._add_axiom(z3.Implies(inr, passes))
            if vals:
                self._add_axiom(z3.Implies(inr, z3.Or(*[z3.And(g, R[q] == v) for g, v in vals])))
            for q2 in r_terms:
                self._add_axiom(z3.And(z3.Implies(z3.And(q < q2, q >= 0, q2 < m), pos(q) < pos(q2)),
                                       z3.Implies(z3.And(q2 < q, q2 >= 0, q < m), pos(q2) < pos(q))))
            r_terms.append(q)
            self._add_axiom(z3.Implies(inr, rank(p) == q))

        def inst_S(p):
            inr = z3.And(p >= 0, p < n)
            x = self.nth(S, p)
            passes, _ = cond_and_value(x, inr)
            rk = rank(p)
            self._add_axiom(z3.Implies(z3.And(inr, passes), z3.And(rk >= 0, rk < m, pos(rk) == p)))
            if nest(rk) <= 3 and not (z3.is_app(p) and p.decl().name() == pos.name()) \
                    and not any(t.eq(smt.simp(rk)) for t in r_terms):
                self.note_index(R, rk)         # (for p = pos(q') the image is q' itself: no new term)

        self.add_qfact(R, 'filter-R', inst_R)
        self.add_qfact(S, 'filter-S', inst_S)
        self.note_index(R, z3.IntVal(0))
        return out
