"""
Quantifiers without solver quantifiers (DESIGN.md §3.2):

* every universally quantified fact over a sequence S is kept as a QFact and *instantiated by the
  generator* at the index terms that occur for S on the path (element reads, loop indices, skolem
  witnesses);
* `all(P(x) for x in S)` becomes a fresh Bool b with  ¬b ⇒ ¬P(S[w])  for a fresh witness w (this is the
  skolemised goal) and  b ⇒ P(S[t])  instantiated at every index term t of S (hypothesis use);
* comprehensions over symbolic-length sequences are summarised:  |R| = |S|  and  R[t] = E(S[t])  is
  instantiated at index terms; "first raising element raises" is a second outcome with a witness index.
"""
from __future__ import annotations

import ast
from typing import Any, Callable, Dict, List, Optional, Tuple

import z3

from . import smt
from .smt import Val
from .core import Frame, GenObj, Infeasible, PathEnd, PyRaise, Unsupported
from .builtins_model import builtin_class


class QFact:
    def __init__(self, name: str, inst: Callable[[Any], None]):
        self.name = name
        self.inst = inst
        self.done: set = set()


class QuantMixin:
    # registry (reset per path)
    def quant_reset(self) -> None:
        self.q_terms: Dict[int, List[Any]] = {}       # seq term id -> index terms
        self.q_facts: Dict[int, List[QFact]] = {}     # seq term id -> facts
        self.q_alias: Dict[int, List[Any]] = {}       # seq term id -> related sequences sharing the index domain
        self.q_seqs: Dict[int, Any] = {}
        self.seq_elem_type: Dict[int, str] = {}

    def norm_seq(self, s):
        """canonical form of a sequence term: H_seq[...][r(t)] with t canonicalised (havoc constants replaced by
        the terms they were assumed equal to) and stores at fresh ids stripped for pre-existing owners"""
        s = smt.simp(s)
        if z3.is_app(s) and s.decl().kind() == z3.Z3_OP_SELECT and s.num_args() == 2:
            arr, idx = s.arg(0), s.arg(1)
            if z3.is_app(idx) and idx.decl().name() == 'r' and idx.num_args() == 1:
                t = idx.arg(0)
                t2 = self.canon(t)
                if self.is_old(t2) or self.is_old(t):
                    arr = self.strip_fresh(arr)
                s = smt.simp(z3.Select(arr, Val.r(t2)))
        return s

    def _seq_key(self, s) -> int:
        s = self.norm_seq(s)
        k = s.get_id()
        if k not in self.q_seqs:
            self.q_seqs[k] = s
            # sequences registered earlier under a form that has since become canonicalisable
            for k0, s0 in list(self.q_seqs.items()):
                if k0 != k and self.norm_seq(s0).get_id() == k:
                    self.q_alias.setdefault(k0, []).append(k)
                    self.q_alias.setdefault(k, []).append(k0)
        return k

    def _closure(self, key: int) -> List[int]:
        seen, todo = [], [key]
        while todo:
            k = todo.pop()
            if k in seen:
                continue
            seen.append(k)
            for other in self.q_alias.get(k, []):
                todo.append(other)
        return seen

    def link_seqs(self, a, b) -> None:
        """a and b are indexed by the same domain (b[i] is derived from a[i])"""
        ka, kb = self._seq_key(a), self._seq_key(b)
        self.q_alias.setdefault(ka, []).append(kb)
        self.q_alias.setdefault(kb, []).append(ka)
        for t in list(self.q_terms.get(ka, [])):
            self.note_index(b, t)
        for t in list(self.q_terms.get(kb, [])):
            self.note_index(a, t)

    def note_index(self, s, t) -> None:
        """index term t is used on sequence s: instantiate every fact over s (and linked sequences) at t"""
        t = smt.simp(t)
        if z3.is_int_value(t) and False:
            return
        for k in self._closure(self._seq_key(s)):
            terms = self.q_terms.setdefault(k, [])
            if any(x.eq(t) for x in terms):
                continue
            terms.append(t)
            for f in list(self.q_facts.get(k, [])):
                self._inst(f, t)

    def _inst(self, f: QFact, t) -> None:
        if t.get_id() in f.done:
            return
        f.done.add(t.get_id())
        f.inst(t)

    def add_qfact(self, s, name: str, inst: Callable[[Any], None]) -> QFact:
        f = QFact(name, inst)
        k = self._seq_key(s)
        self.q_facts.setdefault(k, []).append(f)
        for kk in self._closure(k):
            for t in list(self.q_terms.get(kk, [])):
                self._inst(f, t)
        return f

    def elem(self, s, t):
        """s[t] with the read registered as an index term"""
        v = smt.simp(s[t])
        self.note_index(s, t)
        self.bound_ref(v)
        et = self.seq_elem_type.get(smt.simp(s).get_id())
        if et is not None:
            self._add_axiom(z3.Implies(z3.And(t >= 0, t < z3.Length(s)), self.type_formula(v, et)))
        return v

    # ------------------------------------------------------------------ all / any over generator expressions
    def special_all(self, e: ast.Call, fr: Frame):
        return self._all_any(e, fr, True)

    def special_any(self, e: ast.Call, fr: Frame):
        return self._all_any(e, fr, False)

    def _all_any(self, e: ast.Call, fr: Frame, is_all: bool):
        arg = e.args[0]
        if not isinstance(arg, (ast.GeneratorExp, ast.ListComp)) or len(arg.generators) != 1:
            v = self.ev(arg, fr)
            return (self.bi_all if is_all else self.bi_any)([v], {})
        gen = arg.generators[0]
        itv = self.ev(gen.iter, fr)
        items = self.iter_items(itv, gen.iter)
        rng = None
        so = self.static_of(itv)
        if items is None and isinstance(so, GenObj) and so.kind == 'range' and len(so.payload) == 1:
            rng = smt.int_of(so.payload[0])
        if items is not None:
            for x in items:
                sub = Frame(fr.func, fr.module, parent=fr, cls=fr.cls)
                sub.is_spec = fr.is_spec
                self.assign(gen.target, x, sub)
                if not all(self.branch(self.truthy(self.ev(c, sub))) for c in gen.ifs):
                    continue
                t = self.truthy(self.ev(arg.elt, sub))
                if is_all and not self.branch(t):
                    return smt.FALSE
                if not is_all and self.branch(t):
                    return smt.TRUE
            return smt.mk_bool(is_all)
        if rng is not None:
            # quantification over range(n): the index domain is shared by all range quantifiers
            S = z3.Const('INT_DOMAIN', smt.SeqV)
            n = rng
        else:
            sv = self.to_seq_val(itv, gen.iter)
            S = self.get_seq(sv)
            n = z3.Length(S)
        snap = self.st.snapshot()

        def P(i):
            """z3 Bool: the element predicate at index i (in the heap as it is now)"""
            cur = self.st.snapshot()
            self.st.restore(snap)
            try:
                def thunk():
                    pass
                    sub = Frame(fr.func, fr.module, parent=fr, cls=fr.cls)
                    sub.is_spec = fr.is_spec
                    self.assign(gen.target, smt.simp(Val.int(i)) if rng is not None else self.elem(S, i), sub)
                    for c in gen.ifs:
                        if not self.branch(self.truthy(self.ev(c, sub))):
                            return z3.BoolVal(is_all)
                    return self.truthy(self.ev(arg.elt, sub))
                return self.merged_truth(thunk, 'quantified element predicate', assuming=z3.And(i >= 0, i < n))
            finally:
                self.st.restore(cur)

        b = self.fresh('q', z3.BoolSort())
        w = self.fresh('w', smt.I)
        if is_all:
            # skolemised negation:  not b  =>  a counterexample index exists
            pw = P(w)
            self._add_axiom(z3.Implies(z3.Not(b), z3.And(w >= 0, w < n, z3.Not(pw))))
            self.add_qfact(S, 'all', lambda t: self._add_axiom(
                z3.Implies(b, z3.Implies(z3.And(t >= 0, t < n), P(t)))))
        else:
            pw = P(w)
            self._add_axiom(z3.Implies(b, z3.And(w >= 0, w < n, pw)))
            self.add_qfact(S, 'any', lambda t: self._add_axiom(
                z3.Implies(z3.Not(b), z3.Implies(z3.And(t >= 0, t < n), z3.Not(P(t))))))
        self.note_index(S, w)
        return smt.simp(Val.bool(b))

    # ------------------------------------------------------------------ comprehensions
    def ev_ListComp(self, e, fr):
        return self.comprehension(e, fr, 'list')

    def ev_GeneratorExp(self, e, fr):
        return self.comprehension(e, fr, 'tuple')

    def ev_SetComp(self, e, fr):
        items = self.comp_concrete(e, fr)
        if items is None:
            self.unsupported('set comprehension over symbolic iterable', e)
        return self.mk_set(items)

    def ev_DictComp(self, e, fr):
        h = getattr(self, 'dictcomp_hook', None)
        gen = e.generators[0]
        if len(e.generators) != 1:
            self.unsupported('nested dict comprehension', e)
        itv = self.ev(gen.iter, fr)
        items = self.iter_items(itv, gen.iter)
        if items is None:
            return self.dictcomp_symbolic(e, fr, itv)
        d = self.mk_dict([])
        for x in items:
            sub = Frame(fr.func, fr.module, parent=fr, cls=fr.cls)
            self.assign(gen.target, x, sub)
            if not all(self.branch(self.truthy(self.ev(c, sub))) for c in gen.ifs):
                continue
            self.dict_set(d, self.ev(e.key, sub), self.ev(e.value, sub))
        return d

    def dictcomp_symbolic(self, e, fr, itv):
        self.unsupported('dict comprehension over symbolic iterable', e)

    def comp_concrete(self, e, fr) -> Optional[List[Any]]:
        if len(e.generators) != 1:
            self.unsupported('nested comprehension', e)
        gen = e.generators[0]
        itv = self.ev(gen.iter, fr)
        items = self.iter_items(itv, gen.iter)
        if items is None:
            return None
        out = []
        for x in items:
            sub = Frame(fr.func, fr.module, parent=fr, cls=fr.cls)
            sub.is_spec = fr.is_spec
            self.assign(gen.target, x, sub)
            if not all(self.branch(self.truthy(self.ev(c, sub))) for c in gen.ifs):
                continue
            out.append(self.ev(e.elt, sub))
        return out

    def comprehension(self, e, fr, kind: str):
        if len(e.generators) != 1:
            self.unsupported('nested comprehension', e)
        gen = e.generators[0]
        itv = self.ev(gen.iter, fr)
        items = self.iter_items(itv, gen.iter)
        if items is not None:
            out = []
            for x in items:
                sub = Frame(fr.func, fr.module, parent=fr, cls=fr.cls)
                sub.is_spec = fr.is_spec
                self.assign(gen.target, x, sub)
                if not all(self.branch(self.truthy(self.ev(c, sub))) for c in gen.ifs):
                    continue
                out.append(self.ev(e.elt, sub))
            return self.mk_list(out) if kind == 'list' else self.mk_tuple(out)
        sv = self.to_seq_val(itv, gen.iter)
        S = self.get_seq(sv)
        if gen.ifs:
            return self.filter_comprehension(e, fr, kind, S)
        return self.map_comprehension(e, fr, kind, S)

    def eval_elt(self, e, fr, x):
        gen = e.generators[0]
        sub = Frame(fr.func, fr.module, parent=fr, cls=fr.cls)
        sub.is_spec = fr.is_spec
        self.assign(gen.target, x, sub)
        return self.ev(e.elt, sub)

    def map_comprehension(self, e, fr, kind: str, S):
        """[E(x) for x in S], |S| symbolic.  Outcomes: every element evaluates (summary with lazily
        instantiated element facts) | the first raising element raises (witness index j)."""
        n = z3.Length(S)
        if self.choose([z3.BoolVal(True), n > 0]) == 1:
            j = self.fresh('j', smt.I)
            self.assume(z3.And(j >= 0, j < n))
            x = self.elem(S, j)
            self.eval_elt(e, fr, x)          # raises PyRaise on the raising sub-paths
            raise Infeasible()               # this outcome exists only if the element raises
        R = self.fresh('R', smt.SeqV)
        self._add_axiom(z3.Length(R) == n)
        out = self.alloc(builtin_class('list' if kind == 'list' else 'tuple'))
        self.set_seq(out, R)
        snap_frame = fr

        def inst(t):
            in_range = z3.And(t >= 0, t < n)
            if z3.is_false(smt.simp(in_range)):
                return
            rs = self.sub_explore(lambda: self.eval_elt(e, snap_frame, smt.simp(S[t])))
            rets = [r for r in rs if r[1] == 'ret']
            if not rets:
                self._add_axiom(z3.Not(in_range))
                return
            # the comprehension completed, so element t did not raise: its value is one of the returning
            # sub-paths' values
            self.assume(z3.Implies(in_range, z3.Or(*[z3.And(g, R[t] == v) for g, _, v, _ in rets])))
            if len(rets) == 1:
                self.adopt_fresh_effects(rets[0][3])
        self.link_seqs(S, R)
        self.add_qfact(S, 'map', inst)
        return out

    def adopt_fresh_effects(self, st_after) -> None:
        """effects of evaluating one generic element: stores into objects allocated by that evaluation
        are kept (they cannot conflict with anything else); other writes are not supported here"""
        for name, arr in st_after.attrs.items():
            self.st.attrs[name] = arr
        self.st.dct, self.st.dlen, self.st.seq = st_after.dct, st_after.dlen, st_after.seq

    def filter_comprehension(self, e, fr, kind: str, S):
        self.unsupported('filtering comprehension over symbolic iterable', e)
