"""
Verification driver: per-function obligations from contracts, modular use of callee contracts.
"""
from __future__ import annotations

import ast
import os
import time
import traceback
from dataclasses import dataclass, field
from typing import Any, Dict, List, Optional, Tuple

import z3

from . import smt
from .smt import Val
from .core import (BoundBuiltin, BoundMethod, Builtin, Closure, ExtObject, Frame, GenObj, Infeasible, Obligation,
                   Partial, PathEnd, PyRaise, ReturnSig, Unsupported)
from .index import ClassInfo, FuncInfo, Index
from .builtins_model import builtin_class
from .engine import EngineBase
from .engine_expr import ExprMixin
from .engine_call import CallMixin
from .engine_inspect import InspectMixin
from .engine_stmt import StmtMixin
from .engine_builtins import BuiltinsMixin
from .engine_quant import QuantMixin
from .engine_loops import LoopMixin
from .contracts import Contract

MAX_PATHS = 4000


def EngineBase_call_function(self, fi, args, kwargs):
    from .engine_call import CallMixin
    return CallMixin.call_function(self, fi, args, kwargs)


@dataclass
class PathRecord:
    decisions: Tuple[int, ...]
    outcome: str                 # 'return' | 'raise:<Class>' | 'infeasible' | 'end' | 'unsupported'
    detail: str = ''
    pc_size: int = 0


@dataclass
class FuncResult:
    qualname: str
    contract: str
    sha1: str
    paths: List[PathRecord] = field(default_factory=list)
    obligations: List[Obligation] = field(default_factory=list)
    unsupported: List[str] = field(default_factory=list)
    errors: List[str] = field(default_factory=list)
    stats: Dict[str, Any] = field(default_factory=dict)
    wall_s: float = 0.0
    vacuous: bool = False
    covers: Dict[str, int] = field(default_factory=dict)

    @property
    def failed(self) -> List[Obligation]:
        return [o for o in self.obligations if o.verdict == 'failed']

    @property
    def unknown(self) -> List[Obligation]:
        return [o for o in self.obligations if o.verdict == 'unknown']


class Verifier(InspectMixin, QuantMixin, LoopMixin, ExprMixin, CallMixin, StmtMixin, BuiltinsMixin, EngineBase):
    def __init__(self, index: Index, contracts: Dict[str, Contract]):
        super().__init__(index)
        self.contracts = contracts
        self.exc_stack: List[Any] = []
        self.hint_classobj: Dict[int, ClassInfo] = {}
        self.failed_models: List[Tuple[Obligation, Dict[str, Any]]] = []
        self.param_vals: Dict[str, Any] = {}
        self.loop_contracts: Dict[Tuple[str, int], Any] = {}
        self.cross_check = False
        self.cross: List[Dict[str, Any]] = []
        self.oracles: Dict[str, Dict[str, Any]] = {}
        self.use_summaries = False
        self.field_types: Dict[Tuple[str, str], str] = {}
        self.oracle_methods: Dict[str, Dict[str, Any]] = {}
        self.class_invariants: Dict[str, str] = {}      # external class -> assumed invariant (spec function)
        self.comp_matched: set = set()

    def reset_path(self, decisions):
        super().reset_path(decisions)
        self.exc_stack = []
        self.hint_classobj = {}
        self.depth = 0
        self.quant_reset()
        self.loop_entry = []
        self.orc_spec = {}
        self.spec_summaries = {}
        self.summarising = False
        self.norm_of = {}
        self.in_norm_fact = False
        self.awaited_call = False
        self.container_elem_type = {}
        self.trace_init()

    # ==================================================================================== spec-function summaries
    def heap_key(self):
        # every heap write is logged in self.writes; allocations only add cells of fresh objects
        st = self.st
        return (len(self.writes), tuple(sorted((n, g.get_id()) for n, g in st.ghost.items())))

    def call_function(self, f, args, kwargs, star=None, dstar=None, node=None):
        fi = f.func if isinstance(f, Closure) else f
        if (self.sub_depth > 0 and not kwargs and star is None and dstar is None and self.use_summaries
                and (isinstance(f, FuncInfo) or (isinstance(f, Closure) and f.frame is None))
                and fi.module is not None and fi.module.name.startswith(('spec.', 'contracts.'))
                and not isinstance(fi.node, ast.Lambda) and fi.qualname not in self.contracts
                and not self.summarising):
            r = self.summarised_spec_call(fi, args, node)
            if r is not NotImplemented:
                return r
        return super().call_function(f, args, kwargs, star, dstar, node)

    def mentions_new(self, t, ref0: int, cnt0: int) -> bool:
        """does the term mention an object allocated (id >= ref0) or a symbol created (index > cnt0) later?"""
        seen = set()
        todo = [t]
        while todo:
            x = todo.pop()
            if x.get_id() in seen:
                continue
            seen.add(x.get_id())
            if z3.is_int_value(x):
                continue
            if z3.is_app(x) and x.decl().name() == 'ref' and x.num_args() == 1 and z3.is_int_value(x.arg(0)):
                # a VALUE that is an object allocated during the generic run (store indices do not matter)
                if x.arg(0).as_long() >= ref0 and x.arg(0).as_long() >= smt.FRESH_BASE:
                    return True
                continue
            if z3.is_const(x) and x.decl().kind() == z3.Z3_OP_UNINTERPRETED:
                nm = x.decl().name()
                if '!' in nm:
                    tail = nm.rsplit('!', 1)[1]
                    if tail.isdigit() and int(tail) > cnt0 and not nm.startswith('g!'):
                        if os.environ.get('PYVC_DEBUG'):
                            print('[summary] new symbol', nm, cnt0, flush=True)
                        return True
                continue
            if z3.is_app(x):
                todo.extend(x.children())
        return False

    def summarised_spec_call(self, fi: FuncInfo, args, node=None):
        """A pure spec function is evaluated ONCE per (function, argument classes, heap) on generic arguments; the
        merged result is then instantiated by substitution.  Falls back to ordinary evaluation whenever the
        generic run is not clean (fresh symbols, allocations, nested quantifiers, possible raise)."""
        a = fi.node.args
        if a.vararg or a.kwarg or a.kwonlyargs or len(a.args) != len(args):
            return NotImplemented
        cls_key = []
        for v in args:
            c = self.class_of(v)
            sid = smt.static_id(v)
            cls_key.append((c.qualname if c is not None else None, self.kind_of(v), sid if sid is not None and sid < 0 else None,
                            self.is_old(v)))
        key = (fi.qualname, tuple(cls_key), self.heap_key())
        ent = self.spec_summaries.get(key)
        if ent is None:
            gens = []
            for i, v in enumerate(args):
                if cls_key[i][2] is not None:
                    gens.append(v)                       # static objects stay themselves
                    continue
                g = z3.Const(f'g!{fi.name}!{i}!{len(self.spec_summaries)}', Val)
                vid, gid = smt.simp(v).get_id(), g.get_id()
                for tbl in (self.known_cls, self.hint_cls, self.kind_hint, self.hint_classobj, self.container_elem_type):
                    if vid in tbl:
                        tbl[gid] = tbl[vid]
                if vid in self.old_terms:
                    self.old_terms.add(gid)
                    self._add_axiom(z3.Implies(Val.is_ref(g), Val.r(g) < smt.FRESH_BASE))
                self._add_axiom(g != smt.ABSENT)
                self.bounded.add(gid)
                gens.append(g)
            c0 = (self.fresh_counter, self.next_ref, sum(len(x) for x in self.q_facts.values()))
            base = len(self.pc)
            self.summarising = True
            try:
                try:
                    rs = self.sub_explore(lambda: EngineBase_call_function(self, fi, list(gens), {}), pure=True)
                except Unsupported:
                    rs = None
            finally:
                self.summarising = False
            new_axioms = [c for c, ax in zip(self.pc[base:], self.pc_axiom[base:]) if ax]
            clean = rs is not None and sum(len(x) for x in self.q_facts.values()) == c0[2]
            raise_guard = None
            if clean:
                rets = [r for r in rs if r[1] == 'ret']
                rz = [r[0] for r in rs if r[1] == 'raise']
                raise_guard = z3.Or(*rz) if rz else None
                for guard, _, v, _ in rets:
                    if self.mentions_new(guard, c0[1], c0[0]) or self.mentions_new(v, c0[1], c0[0]):
                        clean = False
                        if os.environ.get('PYVC_DEBUG'):
                            print('[summary] dirty term:', str(guard)[:300], '||', str(v)[:200], flush=True)
                if raise_guard is not None and self.mentions_new(raise_guard, c0[1], c0[0]):
                    clean = False
                rs = rets
            if not clean or not rs:
                ent = None
                self.spec_summaries[key] = False
                if os.environ.get('PYVC_DEBUG'):
                    why = 'unsupported' if rs is None else (f'not clean {c0} -> {(self.fresh_counter, self.next_ref, sum(len(x) for x in self.q_facts.values()))}' if not clean else 'raises' if rs else 'no result')
                    print(f'[summary] {fi.name}: no summary ({why})', flush=True)
            else:
                val = rs[-1][2]
                for guard, _, v, _ in reversed(rs[:-1]):
                    val = z3.If(guard, v, val)
                new_axioms = [c for c in new_axioms if not self.mentions_new(c, c0[1], c0[0])]
                ent = (gens, val, new_axioms, raise_guard)
                self.spec_summaries[key] = ent
        if not ent:
            return NotImplemented
        gens, val, axioms, raise_guard = ent
        subst = [(g, v) for g, v in zip(gens, args) if not g.eq(v)]
        if raise_guard is not None:
            rg = z3.substitute(raise_guard, *subst) if subst else raise_guard
            if self.feasible(rg):
                return NotImplemented           # the function may raise on these arguments: evaluate it for real
        for c in axioms:
            self._add_axiom(z3.substitute(c, *subst) if subst else c)
        out = smt.simp(z3.substitute(val, *subst)) if subst else val
        return out

    # ==================================================================================== type specs
    def resolve_class(self, q: str) -> ClassInfo:
        c = self.index.find(q) if ':' in q else builtin_class(q)
        if not isinstance(c, ClassInfo):
            c = self.find_class(q)
        if not isinstance(c, ClassInfo):
            raise Unsupported(f'contract refers to unknown class {q}')
        return c

    def type_formula(self, v, spec: str, hint: bool = True):
        """z3 Bool stating that Val v has the given type spec (also registers class hints when assumed)"""
        spec = spec.strip()
        if spec == 'any':
            return z3.BoolVal(True)
        if spec.startswith('oneof:'):
            return z3.Or(*[v == self.pin_val(q) for q in spec[6:].split(',')])
        if spec.startswith('opt:'):
            return z3.Or(Val.is_none(v), self.type_formula(v, spec[4:], hint=False))
        if '|' in spec:
            return z3.Or(*[self.type_formula(v, s, hint=False) for s in spec.split('|')])
        if spec.startswith('seq['):
            inner = spec[4:-1]
            L, T = builtin_class('list'), builtin_class('tuple')
            self.use_class(L)
            self.use_class(T)
            if hint:
                self.seq_elem_type[self.get_seq(v).get_id()] = inner
                self.container_elem_type[smt.simp(v).get_id()] = inner
            cid = smt.cls_of(Val.r(v))
            return z3.And(Val.is_ref(v), Val.r(v) >= 0, z3.Or(cid == L.cid, cid == T.cid))
        if spec == 'json':
            L, D = builtin_class('list'), builtin_class('dict')
            self.use_class(L)
            self.use_class(D)
            cid = smt.cls_of(Val.r(v))
            return z3.And(smt.isjson(v),
                          z3.Or(Val.is_none(v), Val.is_bool(v), Val.is_int(v), Val.is_flt(v), Val.is_str(v),
                                z3.And(Val.is_ref(v), Val.r(v) >= 0, z3.Or(cid == L.cid, cid == D.cid))))
        if spec == 'str':
            return Val.is_str(v)
        if spec == 'int':
            return Val.is_int(v)
        if spec == 'bool':
            return Val.is_bool(v)
        if spec == 'float':
            return Val.is_flt(v)
        if spec == 'number':
            return z3.Or(Val.is_int(v), Val.is_flt(v))
        if spec == 'none':
            return Val.is_none(v)
        if spec == 'encodable':
            # A-user: "registered methods return JSON-encodable values": in particular never the UNSET marker
            U = self.resolve_class('pjrpc.common.common:UnsetType')
            self.use_class(U)
            f = z3.Function('uf_encodable', Val, z3.BoolSort())
            return z3.And(f(v), z3.Not(z3.And(Val.is_ref(v), smt.cls_of(Val.r(v)) == U.cid)))
        if spec == 'callable':
            spec = '=UserCallable'
        if spec == 'object':
            spec = '=UserObject'
        if spec.startswith('type<='):
            K = self.resolve_class(spec[6:])
            if hint:
                self.hint_classobj[smt.simp(v).get_id()] = K
            if K not in self.classobj_cands:
                self.classobj_cands.append(K)
            return z3.And(Val.is_ref(v), Val.r(v) < 0, self.sub_term(Val.r(v), K), self.sub_chain(Val.r(v), K))
        exact = spec.startswith('=')
        K = self.resolve_class(spec[1:] if exact else spec)
        self.use_class(K)
        if exact:
            t = z3.And(Val.is_ref(v), Val.r(v) >= 0, smt.cls_of(Val.r(v)) == K.cid)
            if hint:
                self.known_cls[smt.simp(v).get_id()] = K
            return t
        if hint:
            self.hint_cls.setdefault(smt.simp(v).get_id(), K)
        cid = smt.cls_of(Val.r(v))
        return z3.And(Val.is_ref(v), Val.r(v) >= 0, self.sub_term(cid, K), self.sub_chain(cid, K))

    def sub_chain(self, cid, K: ClassInfo):
        """cid is a subclass of K: subclass facts up the mro, and cid is either one of the library's own
        subclasses of K or a class unknown to the library (open universe: ids in a reserved range)"""
        known = self.subclasses.get(K.qualname, [K])
        for k in known:
            self.use_class(k)
        closed = K.builtin and K.name in ('list', 'tuple', 'dict', 'set', 'frozenset', 'str', 'int', 'bool', 'float',
                                          'iterator', 'defaultdict')
        universe = z3.Or(*[cid == k.cid for k in known]) if closed else \
            z3.Or(*[cid == k.cid for k in known], z3.And(cid < -100_000, cid > -900_000))
        return z3.And(universe, *[self.sub_term(cid, b) for b in K.mro()])

    def assume_type(self, v, spec: str) -> None:
        self.assume(self.type_formula(v, spec))
        if spec in ('str', 'int', 'bool', 'none'):
            self.kind_hint[smt.simp(v).get_id()] = spec
        self.bound_ref(v)
        if spec.startswith('=') and spec[1:] in self.class_invariants:
            self.assume_class_invariant(v, spec[1:])

    def assume_class_invariant(self, v, cname: str) -> None:
        """assumed invariant of an EXTERNAL class (framework contract), stated as a spec function of the object"""
        inv = self.class_invariants.get(cname)
        if inv is None:
            return
        key = ('clsinv', smt.simp(v).get_id())
        if key in self.global_cache:
            return
        self.global_cache[key] = True
        cl = self.index.find(inv)
        self._add_axiom(self.clause_holds(cl, {cl.node.args.args[0].arg: v}))

    # ==================================================================================== spec primitives
    def ev_Call(self, e: ast.Call, fr: Frame):
        if isinstance(e.func, ast.Name) and not fr.has(e.func.id):
            r = self.index.module_attr(fr.module, e.func.id) if fr.module is not None else None
            if isinstance(r, FuncInfo) and r.module.name == 'spec.prims':
                h = getattr(self, 'prim_' + r.name, None)
                if h is None:
                    self.unsupported(f'spec primitive {r.name}', e)
                return h(e, fr)
        return super().ev_Call(e, fr)

    def prim_old(self, e, fr):
        if self.old is None:
            self.unsupported('old() outside a postcondition', e)
        cur = self.st.snapshot()
        self.st.restore(self.old)
        w0 = len(self.writes)
        try:
            return self.ev(e.args[0], fr)
        finally:
            # cells of objects allocated while evaluating in the pre-state are carried over
            after = self.st.snapshot()
            self.st.restore(cur)
            for fld, ref, _ in self.writes[w0:]:
                rr = smt.simp(ref)
                if not (z3.is_int_value(rr) and rr.as_long() >= smt.FRESH_BASE):
                    continue
                if fld == '$seq':
                    self.st.seq = z3.Store(self.st.seq, rr, z3.Select(after.seq, rr))
                elif fld == '$dict':
                    self.st.dct = z3.Store(self.st.dct, rr, z3.Select(after.dct, rr))
                    self.st.dlen = z3.Store(self.st.dlen, rr, z3.Select(after.dlen, rr))
                elif fld in after.attrs:
                    self.st.attrs[fld] = z3.Store(self.attr_array(fld), rr, z3.Select(after.attrs[fld], rr))

    def prim_implies(self, e, fr):
        a = self.ev(e.args[0], fr)
        if self.branch(self.truthy(a)):
            return self.to_val_bool(self.truthy(self.ev(e.args[1], fr)))
        return smt.TRUE

    def prim_is_json(self, e, fr):
        v = self.ev(e.args[0], fr)
        return self.to_val_bool(self.type_formula(v, 'json'))

    def prim_has_type(self, e, fr):
        v = self.ev(e.args[0], fr)
        spec = ast.literal_eval(e.args[1])
        return self.to_val_bool(self.type_formula(v, spec))

    def prim_is_fresh(self, e, fr):
        v = self.ev(e.args[0], fr)
        return self.to_val_bool(z3.And(Val.is_ref(v), Val.r(v) >= smt.FRESH_BASE))

    def prim_same(self, e, fr):
        a = self.ev(e.args[0], fr)
        b = self.ev(e.args[1], fr)
        return self.to_val_bool(a == b)

    def prim_class_is(self, e, fr):
        """class_is(obj, cls_value): type(obj) is cls_value"""
        o = self.ev(e.args[0], fr)
        c = self.ev(e.args[1], fr)
        K = self.static_of(c)
        if isinstance(K, ClassInfo):
            self.use_class(K)
        return self.to_val_bool(z3.And(Val.is_ref(o), Val.is_ref(c), smt.cls_of(Val.r(o)) == Val.r(c)))

    def prim_member(self, e, fr):
        """member(d, k): value of key k in dict d, or ABSENT marker compared via absent()"""
        d = self.ev(e.args[0], fr)
        k = self.ev(e.args[1], fr)
        return self.dict_get(d, k)

    def prim_is_absent(self, e, fr):
        v = self.ev(e.args[0], fr)
        return self.to_val_bool(v == smt.ABSENT)

    def prim_str_of(self, e, fr):
        v = self.ev(e.args[0], fr)
        return smt.simp(Val.str(smt.pystr(v)))

    def prim_method_value(self, e, fr):
        q = ast.literal_eval(e.args[0])
        fi = self.index.find(q)
        if fi is None:
            self.unsupported(f'method_value: {q} not found')
        return self.method_val(fi)

    def prim_closure_func(self, e, fr):
        so = self.static_of(self.ev(e.args[0], fr))
        if isinstance(so, Closure):
            return smt.mk_str(so.func.qualname)
        if isinstance(so, FuncInfo):
            return smt.mk_str(so.qualname)
        if isinstance(so, BoundMethod):
            f = so.func
            return smt.mk_str(f.func.qualname if isinstance(f, Closure) else f.qualname)
        self.unsupported('closure_func of a value that is not a statically known function')

    def prim_closure_var(self, e, fr):
        so = self.static_of(self.ev(e.args[0], fr))
        name = ast.literal_eval(e.args[1])
        if isinstance(so, Closure) and so.frame is not None:
            v = so.frame.lookup(name)
            if v is not None:
                return v
        self.unsupported(f'closure_var: no captured variable {name}')

    def prim_bound_method(self, e, fr):
        """bound_method(obj, 'name'): the bound method object obj.name (as a value that can be compared / called)"""
        obj = self.ev(e.args[0], fr)
        name = ast.literal_eval(e.args[1])
        ck = ('bm', smt.simp(obj).get_id(), name)
        if ck in self.global_cache:
            return self.global_cache[ck]
        c = self.require_class(obj, 'bound_method receiver')
        lk = c.lookup(name)
        if lk is None or lk[0] != 'method':
            self.unsupported(f'bound_method: {c.name}.{name} is not a method')
        # group by implementation if subclasses override
        groups = self.member_groups(c, name)
        vals = []
        for key, (ent, ks) in groups.items():
            if ent is None or ent[0] != 'method':
                continue
            vals.append((ks, self.bound_method_val(obj, self.method_target(ent[1]))))
        if len(vals) == 1:
            v = vals[0][1]
        else:
            r = Val.r(obj)
            v = vals[-1][1]
            for ks, bv in vals[:-1]:
                for kk in ks:
                    self.use_class(kk)
                v = z3.If(z3.Or(*[smt.cls_of(r) == kk.cid for kk in ks]), bv, v)
            v = smt.simp(v)
        for _, bv in vals:
            self.callable_candidates.append(bv)
        self.global_cache[ck] = v
        return v

    def prim_at_entry(self, e, fr):
        """at_entry(expr): value of expr when the innermost enclosing loop was entered"""
        ent = getattr(self, 'loop_entry', None)
        if not ent:
            self.unsupported('at_entry() outside a loop invariant', e)
        st0, locals0 = ent[-1]
        cur = self.st.snapshot()
        self.st.restore(st0)
        sub = Frame(fr.func, fr.module, parent=None, cls=fr.cls)
        sub.is_spec = True
        sub.locals.update(locals0)
        for k, v in fr.locals.items():
            sub.locals.setdefault(k, v)
        try:
            return self.ev(e.args[0], sub)
        finally:
            self.st.restore(cur)

    def prim_seq_concat(self, e, fr):
        a = self.to_seq_val(self.ev(e.args[0], fr))
        b = self.to_seq_val(self.ev(e.args[1], fr))
        t = self.alloc(builtin_class('tuple'))
        self.set_seq(t, smt.simp(z3.Concat(self.get_seq(a), self.get_seq(b))))
        return t

    def prim_seq_same(self, e, fr):
        """same elements (by identity) in the same order"""
        a = self.to_seq_val(self.ev(e.args[0], fr))
        b = self.to_seq_val(self.ev(e.args[1], fr))
        sa, sb = self.get_seq(a), self.get_seq(b)
        if not sa.eq(sb):
            self.link_seqs(sa, sb)          # same index domain: facts about one are instantiated for the other
        return self.to_val_bool(sa == sb)

    def ex_Assert(self, s, fr):
        ct = getattr(self, 'current_contract', None)
        if ct is not None and ct.extra.get('lemma') and fr.func is not None and fr.func.qualname == self.current_func:
            # inside a lemma an assert is a proof obligation (and then a known fact)
            saved = fr.is_spec
            fr.is_spec = True
            try:
                c = self.merged_truth(lambda: self.truthy(self.ev(s.test, fr)), f'assert at line {s.lineno}')
            finally:
                fr.is_spec = saved
            self.oblige('assert', f'line {s.lineno}: {ast.unparse(s.test)[:140]}', c, ct.props)
            return
        return super().ex_Assert(s, fr)

    def prim_assume(self, e, fr):
        """assume(cond) inside a lemma: restricts the lemma to states satisfying cond"""
        c = self.truthy(self.ev(e.args[0], fr))
        self.assume_checked(c)
        return smt.NONE

    def prim_define(self, e, fr):
        """define(cond): an instance of the DEFINITION of an uninterpreted spec predicate (uf(...)) the contract author
        introduces - added as an axiom under the guards of the clause evaluation so far.  Every contract using it is
        listed in the trusted base (a wrong 'definition' is an inconsistent assumption)."""
        c = self.truthy(self.ev(e.args[0], fr))
        self.assume_about_fresh(c) if self.sub_depth > 0 else self._add_axiom(c)
        return smt.TRUE

    def norm_val(self, v, depth: int = 0):
        """the effect of json.loads(json.dumps(v)) on a JSON-encodable value (assumed contract of the
        stdlib, validated by a bounded test): scalars are fixed points; tuples become lists; containers are
        rebuilt member-wise; emptiness, lengths and member presence are preserved; idempotent"""
        v = self.resolve_ite(v)
        k = self.kind_of(v, force=True)
        if k != 'ref':
            return v
        c = self.class_of(v)
        if c is None:
            return self.norm_term(v)
        if c.builtin and c.name in ('dict',):
            ks = self.concrete_keys(v)
            if ks is not None and depth < 4:
                return self.mk_dict([(kk, self.norm_val(self.dict_get(v, kk), depth + 1)) for kk in ks])
        if c.builtin and c.name in ('list', 'tuple'):
            items = self.seq_items(self.get_seq(v))
            if items is not None and depth < 4:
                return self.mk_list([self.norm_val(x, depth + 1) for x in items])
        return self.norm_term(v)

    def norm_term(self, v):
        """norm of an opaque value as a term: scalars fixed, references mapped by the uninterpreted jnorm with
        shape axioms; member-wise facts for dicts are added where members are read (dict_get)"""
        f = z3.Function('ufv_jnorm', Val, Val)
        tag = smt.tag_of(v)
        if tag is not None and tag != 'ref':
            return v
        n = f(v)
        L, T, D = (builtin_class(x) for x in ('list', 'tuple', 'dict'))
        for x in (L, T, D):
            self.use_class(x)
        r, rn = Val.r(v), Val.r(n)
        cid = smt.cls_of(r)
        self._add_axiom(z3.Implies(Val.is_ref(v), z3.And(
            smt.isjson(n), n != smt.ABSENT, Val.is_ref(n), rn >= 0, rn < smt.FRESH_BASE, f(n) == n,
            z3.Implies(z3.Or(cid == L.cid, cid == T.cid), z3.And(
                smt.cls_of(rn) == L.cid,
                z3.Length(z3.Select(self.st.seq, rn)) == z3.Length(z3.Select(self.st.seq, r)))),
            z3.Implies(cid == D.cid, z3.And(
                smt.cls_of(rn) == D.cid, z3.Select(self.st.dlen, rn) == z3.Select(self.st.dlen, r))))))
        # JSON-encodable (deep, uninterpreted): the only references are arrays and objects
        enc = z3.Function('uf_encodable', Val, z3.BoolSort())
        self._add_axiom(z3.Implies(z3.And(enc(v), Val.is_ref(v)), z3.Or(cid == L.cid, cid == T.cid, cid == D.cid)))
        out = smt.simp(z3.If(Val.is_ref(v), n, v)) if tag is None else n
        self.bound_ref(out)
        self.norm_of[smt.simp(out).get_id()] = v
        return out

    def norm_member_fact(self, n, k, got) -> None:
        """n = norm(d): member k of n is the norm of member k of d (absent iff absent)"""
        d = self.norm_of.get(smt.simp(n).get_id())
        if d is None or self.in_norm_fact:
            return
        self.in_norm_fact = True
        try:
            src = self.dict_get(d, k)
            nsrc = self.norm_term(src) if smt.tag_of(src) != 'absent' else src
            self._add_axiom(z3.Implies(z3.And(Val.is_ref(d), Val.is_ref(n)),
                                       got == z3.If(src == smt.ABSENT, smt.ABSENT, nsrc)))
            enc = z3.Function('uf_encodable', Val, z3.BoolSort())
            self._add_axiom(z3.Implies(enc(d), z3.Or(src == smt.ABSENT, enc(src))))
            if smt.tag_of(src) in (None, 'ref'):
                self.norm_of[smt.simp(got).get_id()] = src
        finally:
            self.in_norm_fact = False

    def prim_json_roundtrip(self, e, fr):
        v = self.ev(e.args[0], fr)
        enc = z3.Function('uf_encodable', Val, z3.BoolSort())
        self.assume(enc(v))          # the lemma speaks about JSON-encodable payloads
        return self.norm_val(v)

    def prim_iter_source(self, e, fr):
        it = self.ev(e.args[0], fr)
        return self.read_data_attr(it, builtin_class('iterator'), '$src')

    def prim_iter_pos(self, e, fr):
        it = self.ev(e.args[0], fr)
        return self.read_data_attr(it, builtin_class('iterator'), '$pos')

    def prim_exc_listed(self, e, fr):
        """exc_listed(classes, exc): exc is an instance of one of the classes in the collection (the meaning
        of `except tuple(classes)`); uninterpreted, False for an empty / missing collection"""
        xs = self.ev(e.args[0], fr)
        exc = self.ev(e.args[1], fr)
        return self.to_val_bool(self.exc_listed_term(xs, exc))

    def exc_listed_term(self, xs, exc):
        f = z3.Function('uf_exc_listed', Val, smt.I, z3.BoolSort())
        nonempty = self.truthy(xs)
        return smt.simp(z3.And(nonempty, f(xs, smt.cls_of(Val.r(exc)))))

    def exc_matches(self, exc, type_expr, fr):
        if isinstance(type_expr, ast.Call) and isinstance(type_expr.func, ast.Name) and type_expr.func.id == 'tuple' \
                and len(type_expr.args) == 1:
            # except tuple(<collection of exception classes>)
            arg = type_expr.args[0]
            if isinstance(arg, ast.BoolOp) and isinstance(arg.op, ast.Or) and len(arg.values) == 2 \
                    and isinstance(arg.values[1], (ast.Dict, ast.Tuple, ast.List, ast.Set)) \
                    and not getattr(arg.values[1], 'keys', getattr(arg.values[1], 'elts', [])):
                xs = self.ev(arg.values[0], fr)       # `xs or {}`: an empty fallback matches nothing
            else:
                xs = self.ev(arg, fr)
            return self.exc_listed_term(xs, exc)
        return super().exc_matches(exc, type_expr, fr)

    # ---- assumed contracts of the json module (DESIGN 3.5); validated by a bounded test in ./check assumed
    def bi_json_dumps(self, args, kwargs):
        """json.dumps(obj, cls=E): the document put into the text is obj itself when it is JSON-native, else
        E().default(obj) (one level: the library's to_json results are JSON-native under A-user); returns a
        str t with doc_of(t) == that document.  TypeError for values E cannot encode comes from default()."""
        obj = args[0]
        enc = kwargs.get('cls')
        k = self.kind_of(obj, force=True)
        doc = obj
        if k == 'ref':
            c = self.require_class(obj, 'json.dumps argument')
            if not (c.builtin and c.name in ('dict', 'list', 'tuple')):
                if enc is None or smt.tag_of(enc) == 'none':
                    self.raise_new('TypeError', smt.mk_str('Object is not JSON serializable'))
                e = self.call(enc, [], {})
                doc = self.call(self.get_attr(e, 'default'), [obj], {})
        t = self.fresh('text', z3.StringSort())
        text = Val.str(t)
        self._add_axiom(z3.Function('ufv_doc_of', Val, Val)(text) == doc)
        return text

    def bi_json_loads(self, args, kwargs):
        """json.loads(text): TypeError unless text is a str (bytes are not modelled); otherwise returns a JSON
        value v = parsed(text) (deep JSON, never aliasing objects of the analysed call), or raises
        JSONDecodeError, or raises a plain ValueError (integer literal beyond the interpreter's digit limit)"""
        text = args[0]
        k = self.kind_of(text, force=True)
        if k != 'str':
            self.raise_new('TypeError', smt.mk_str('the JSON object must be str, bytes or bytearray'),
                           origin='json.loads of a non-string')
        is_json = z3.Function('uf_is_json_text', Val, z3.BoolSort())(text)
        huge = z3.Function('uf_has_huge_int_literal', Val, z3.BoolSort())(text)
        which = self.choose([z3.And(is_json, z3.Not(huge)), z3.Not(is_json), z3.And(is_json, huge)])
        if which == 1:
            self.raise_new('JSONDecodeError', smt.mk_str('invalid json'), origin='json.loads')
        if which == 2:
            self.raise_new('ValueError', smt.mk_str('Exceeds the limit for integer string conversion'),
                           origin='json.loads: integer literal beyond sys.get_int_max_str_digits()')
        v = z3.Function('ufv_parsed', Val, Val)(text)
        self.mark_external(v)
        self._add_axiom(self.type_formula(v, 'json', hint=False))
        return v

    # ---- HTTP frameworks (assumed, DESIGN 3.5): responses are records (status, body, content_type)
    def http_response(self, status, body, content_type):
        o = self.alloc(builtin_class('ExtHttpResponse'))
        self.set_attr_raw(o, 'status', status)
        self.set_attr_raw(o, 'body', body)
        self.set_attr_raw(o, 'content_type', content_type)
        return o

    def bi_werkzeug_Response(self, args, kwargs):
        """werkzeug.Response(body='', status=200, mimetype=None, content_type=None)"""
        body = args[0] if args else kwargs.get('response', smt.mk_str(''))
        status = kwargs.get('status', args[1] if len(args) > 1 else smt.mk_int(200))
        ct = kwargs.get('mimetype', kwargs.get('content_type', smt.NONE))
        return self.http_response(status, body, ct)

    bi_flask_Response = bi_werkzeug_Response
    bi_flask_current_app_response_class = bi_werkzeug_Response
    bi_aiohttp_web_Response = bi_werkzeug_Response

    def bi_aiohttp_web_json_response(self, args, kwargs):
        """aiohttp.web.json_response(text=..., status=200): content type application/json"""
        return self.http_response(kwargs.get('status', smt.mk_int(200)), kwargs.get('text', smt.mk_str('')),
                                  smt.mk_str('application/json'))

    def bb_httpexc_get_response(self, e, args, kwargs):
        """assumed (werkzeug): HTTPException.get_response() is a response carrying the exception's status code"""
        c = smt.cls_of(Val.r(e))
        umt, bad = builtin_class('HTTPUnsupportedMediaType'), builtin_class('HTTPBadRequest')
        self.use_class(umt)
        self.use_class(bad)
        other = self.fresh('http_code', smt.I)
        self._add_axiom(z3.And(other >= 400, other != 415, other != 400))
        code = z3.If(smt.sub(c, z3.IntVal(umt.cid)), 415, z3.If(smt.sub(c, z3.IntVal(bad.cid)), 400, other))
        body = self.fresh('http_body')
        self._add_axiom(Val.is_str(body))
        return self.http_response(smt.simp(Val.int(code)), body, smt.mk_str('text/html'))

    def bi_werkzeug_Request(self, args, kwargs):
        """werkzeug.Request(environ): the request object of this WSGI call (opaque; one per environ)"""
        f = z3.Function('ufv_wsgi_request', Val, Val)
        r = f(args[0])
        K = builtin_class('ExtHttpRequest')
        self.mark_external(r)
        self._add_axiom(self.type_formula(r, '=ExtHttpRequest'))
        self.assume_class_invariant(r, 'ExtHttpRequest')
        return r

    def bi_time_sleep(self, args, kwargs):
        """assumed: time.sleep / asyncio.sleep only pause; recorded as a ghost event ('sleep', (delay,))"""
        self.record_event('sleep', smt.NONE, self.mk_tuple(list(args)), self.mk_dict([]), 'ret', smt.NONE)
        return smt.NONE

    bi_asyncio_sleep = bi_time_sleep

    def make_iterator(self, src, pos=None):
        it = self.alloc(builtin_class('iterator'))
        self.set_attr_raw(it, '$src', src)
        self.set_attr_raw(it, '$pos', pos if pos is not None else smt.mk_int(0))
        return it

    def prim_dup_in(self, e, fr):
        """dup_in(existing_set, ids): some non-null id in the sequence duplicates an earlier one or a member of the
        set.  Uninterpreted function of the set's contents and the sequence VALUE (assumed semantics of the
        duplicate check in _add_ids; validated by the bounded stand-in)"""
        ex = self.ev(e.args[0], fr)
        ids = self.to_seq_val(self.ev(e.args[1], fr))
        f = z3.Function('uf_dup_in', smt.DictV, smt.SeqV, z3.BoolSort())
        return self.to_val_bool(f(self.dict_arr(ex), self.get_seq(ids)))

    def _contents_equal(self, x, other_state):
        r = Val.r(x)
        cur = self.st
        return z3.And(z3.Select(cur.dct, r) == z3.Select(other_state.dct, r),
                      z3.Select(cur.dlen, r) == z3.Select(other_state.dlen, r),
                      z3.Select(cur.seq, r) == z3.Select(other_state.seq, r))

    def prim_contents_unchanged(self, e, fr):
        """contents_unchanged(x): the members / elements of container x are what they were on entry to the
        function (in a postcondition) or to the innermost loop (in an invariant)"""
        x = self.ev(e.args[0], fr)
        ent = getattr(self, 'loop_entry', None)
        ref_state = ent[-1][0] if ent else self.old
        if ref_state is None:
            self.unsupported('contents_unchanged outside a postcondition / invariant', e)
        return self.to_val_bool(self._contents_equal(x, ref_state))

    def prim_contents_as_old(self, e, fr):
        x = self.ev(e.args[0], fr)
        return self.to_val_bool(self._contents_equal(x, self.old))

    def prim_dict_is_update(self, e, fr):
        """dict_is_update(d, k, v): d now maps k to v and is otherwise exactly what it was in the pre-state (whole-view
        postcondition: no other key changed)"""
        d = self.ev(e.args[0], fr)
        k = self.ev(e.args[1], fr)
        v = self.ev(e.args[2], fr)
        r = Val.r(d)
        kk = self.key_term(k)
        now = z3.Select(self.st.dct, r)
        before = z3.Select(self.old.dct, r)
        return self.to_val_bool(now == z3.Store(before, kk, v))

    def prim_dict_same_except(self, e, fr):
        """dict_same_except(d, k): apart from key k the dict is exactly what it was in the pre-state"""
        d = self.ev(e.args[0], fr)
        k = self.ev(e.args[1], fr)
        r = Val.r(d)
        kk = self.key_term(k)
        now = z3.Select(self.st.dct, r)
        before = z3.Select(self.old.dct, r)
        return self.to_val_bool(now == z3.Store(before, kk, z3.Select(now, kk)))

    def prim_key_pos(self, e, fr):
        """key_pos(d, k): position of key k in the iteration order of dict d (meaningful when k is present: then
        0 <= key_pos < len(d) and the key at that position is k)"""
        d = self.ev(e.args[0], fr)
        k = self.ev(e.args[1], fr)
        kt = self.dict_keys_seq(d)
        s = self.get_seq(kt)
        pos = self.keypos_fn[s.get_id()]
        kk = smt.simp(self.key_term(k))
        arr = self.dict_arr(d)
        p = pos(kk)
        self._add_axiom(z3.Implies(z3.Select(arr, kk) != smt.ABSENT,
                                   z3.And(p >= 0, p < z3.Length(s), smt.key_of(smt.elem_at(s, p)) == kk)))
        return smt.simp(Val.int(p))

    def prim_uf(self, e, fr):
        """uf('name', a, b, ...): uninterpreted spec predicate over values (a dependency's semantics)"""
        name = ast.literal_eval(e.args[0])
        args = [self.ev(a, fr) for a in e.args[1:]]
        f = z3.Function(f'uf_{name}', *([Val] * len(args)), z3.BoolSort())
        return self.to_val_bool(f(*args))

    def prim_ufv(self, e, fr):
        """ufv('name', a, ...): uninterpreted spec function returning a value"""
        name = ast.literal_eval(e.args[0])
        args = [self.ev(a, fr) for a in e.args[1:]]
        f = z3.Function(f'ufv_{name}', *([Val] * len(args)), Val)
        res = f(*args)
        self.mark_external(res)
        return res

    def prim_ufvt(self, e, fr):
        """ufvt('name', '<type spec>', a, ...): uninterpreted spec function whose values have the given type (a
        definitional typing of the spec function, hence an axiom)"""
        name = ast.literal_eval(e.args[0])
        spec = ast.literal_eval(e.args[1])
        args = [self.ev(a, fr) for a in e.args[2:]]
        f = z3.Function(f'ufv_{name}', *([Val] * len(args)), Val)
        res = f(*args)
        self.mark_external(res)
        self._add_axiom(self.type_formula(res, spec))
        return res

    def mark_external(self, res) -> None:
        """a value produced outside the analysed code (spec function, user callable): never one of the
        objects the analysed call allocates itself"""
        self._add_axiom(z3.And(res != smt.ABSENT, z3.Implies(Val.is_ref(res), Val.r(res) < smt.FRESH_BASE)))
        self.old_terms.add(smt.simp(res).get_id())
        self.bound_ref(res)

    # ---- ghost call trace: parallel arrays indexed by event number (DESIGN 3.2 "ghost state")
    TRACE_FIELDS = ('kind', 'callee', 'args', 'kwargs', 'outcome', 'value')

    def trace_init(self) -> None:
        n = z3.Const('G_tr_len', smt.I)
        self.st.ghost['tr_len'] = n
        self._add_axiom(n >= 0)
        for f in self.TRACE_FIELDS:
            self.st.ghost['tr_' + f] = z3.Array('G_tr_' + f, smt.I, Val)
        self.trace_parent: Dict[int, Tuple[Any, Any]] = {}
        g = z3.Const('G_gathers', smt.I)
        self.st.ghost['gathers'] = g         # number of asyncio.gather calls (C10: concurrency is only entered there)
        self._add_axiom(g >= 0)

    def cut_hook(self, stmt, fr) -> None:
        """intermediate assertions of the contract under proof: `cut<N>` names the program point (right after an
        assignment to a local whose right-hand side contains the given text), `cut<N>_*` clauses over the parameters
        and locals are obligations there (and assumptions afterwards)"""
        ct = getattr(self, 'current_contract', None)
        if ct is None or not ct.extra.get('cut_clauses') or self.sub_depth > 0:
            return
        if getattr(fr, 'func', None) is None or fr.func.qualname != self.current_func.split('@')[0] or fr.is_spec:
            return
        names = [t.id for t in stmt.targets if isinstance(t, ast.Name)]
        txt = ast.unparse(stmt.value)
        for n, clauses in ct.extra['cut_clauses'].items():
            point = ct.extra.get(f'cut{n}') or {}
            if point.get('after_assign') not in names or point.get('value_contains', '') not in txt:
                continue
            env = self.frame_env(fr)
            for cl in clauses:
                self.oblige('cut', f'cut{n} (after `{point.get("after_assign")} = ...{point.get("value_contains")}...`): '
                                   f'{cl.name}', self.clause_holds(cl, self.pick_env(cl, env)), ct.props_of(cl.name))

    def comp_hook(self, e, fr, S) -> None:
        """comprehension contracts of the function under proof (see contracts.py): obligations about the iterated
        sequence, the filter condition and the produced element, each for a GENERIC element - they pin what the
        comprehension computes; that a comprehension is an order-preserving filter-map is the engine's semantics"""
        ct = getattr(self, 'current_contract', None)
        if ct is None or not ct.extra.get('comp_clauses') or self.sub_depth > 0:
            return
        if getattr(fr, 'func', None) is None or fr.func.qualname != self.current_func.split('@')[0]:
            return
        gen = e.generators[0]
        elt_txt = ast.unparse(e.elt)
        for cname, kinds in ct.extra['comp_clauses'].items():
            pat = ct.extra.get(f'comp_{cname}') or {}
            if 'elt_contains' in pat and pat['elt_contains'] not in elt_txt:
                continue
            if 'has_if' in pat and bool(gen.ifs) != bool(pat['has_if']):
                continue
            self.comp_matched.add(cname)
            env = dict(self.frame_env(fr))
            n = z3.Length(S)
            where = f'comprehension `{ast.unparse(e)[:60]}` ({cname})'

            def props(cl):
                return ct.props_of(cl.name)
            for cl in kinds.get('source', []):
                xs = self.alloc(builtin_class('tuple'))
                self.set_seq(xs, S)
                env2 = dict(env, xs=xs)
                self.oblige('comprehension', f'{where}: {cl.name}', self.clause_holds(cl, self.pick_env(cl, env2)), props(cl))
            if gen.ifs and not kinds.get('keeps'):
                self.oblige('comprehension', f'{where}: the contract describes an unfiltered comprehension, the code filters',
                            z3.BoolVal(False), ct.props)
            if not (kinds.get('keeps') or kinds.get('element')):
                continue
            istar = self.fresh('gi', smt.I)
            inr = z3.And(istar >= 0, istar < n)
            x = self.elem(S, istar)                 # registered index: the facts defining S's elements are instantiated
            for cl in kinds.get('keeps', []):
                def cond():
                    self.assume(inr)
                    sub = Frame(fr.func, fr.module, parent=fr, cls=fr.cls)
                    self.assign(gen.target, x, sub)
                    ok = z3.BoolVal(True)
                    for c in gen.ifs:
                        ok = z3.And(ok, self.truthy(self.ev(c, sub)))
                    return ok
                C = self.merged_truth(cond, where, assuming=inr)
                K = self.clause_holds(cl, self.pick_env(cl, dict(env, x=x)))
                self.oblige('comprehension', f'{where}: the filter keeps an element exactly when {cl.name}',
                            z3.Implies(inr, C == K), props(cl))
            if kinds.get('element'):
                saved_ghost = dict(self.st.ghost)
                self.scratch_ghost()

                def elt():
                    self.assume(inr)
                    return self.eval_elt(e, fr, x)
                try:
                    rs = self.sub_explore(elt)
                finally:
                    self.st.ghost = saved_ghost
                for g, k, v, _ in rs:
                    if k != 'ret':
                        continue
                    for cl in kinds['element']:
                        f = self.clause_holds(cl, self.pick_env(cl, dict(env, x=x, y=v)))
                        self.oblige('comprehension', f'{where}: {cl.name} (produced element vs. its source element)',
                                    z3.Implies(z3.And(inr, g), f), props(cl))

    def havoc_containers(self) -> None:
        """coarse frame entry '$containers': the contents (items / entries) of ANY pre-existing list, dict or set may have
        changed - the container heap gets a new base; the cells of objects allocated by the analysed call are kept.
        Attribute cells are untouched.  (Field typing invariants are re-assumed lazily on the new base.)"""
        self.hv_count = getattr(self, 'hv_count', 0) + 1

        def rebuild(arr, name, sort):
            keep = []
            cur = arr
            while z3.is_app(cur) and cur.decl().kind() == z3.Z3_OP_STORE:
                idx = smt.simp(cur.arg(1))
                if z3.is_int_value(idx) and idx.as_long() >= smt.FRESH_BASE:
                    keep.append((idx, cur.arg(2)))
                cur = cur.arg(0)
            base = z3.Const(f'{name}!hv{self.hv_count}_{self.fresh_counter}', sort)
            seen = set()
            for idx, val in keep:                       # outermost store first: it wins
                if idx.as_long() in seen:
                    continue
                seen.add(idx.as_long())
            out = base
            done = set()
            for idx, val in reversed(keep):
                out = z3.Store(out, idx, val)
            return out
        self.st.dct = rebuild(self.st.dct, 'H_dict', self.st.dct.sort())
        self.st.dlen = rebuild(self.st.dlen, 'H_dlen', self.st.dlen.sort())
        self.st.seq = rebuild(self.st.seq, 'H_seq', self.st.seq.sort())
        self.writes.append(('$containers', z3.IntVal(-1), ''))

    def havoc_ghost(self, g: str) -> None:
        """the callee / loop may have appended events: the length grows by d >= 0, earlier events are
        unchanged (prefix axioms are instantiated where events are read)"""
        if g == 'gathers':
            d = self.fresh('g_d', smt.I)
            self._add_axiom(d >= 0)
            self.st.ghost['gathers'] = smt.simp(self.st.ghost['gathers'] + d)
            return
        if g != 'trace':
            raise Unsupported(f'unknown ghost {g}')
        old_len = self.st.ghost['tr_len']
        d = self.fresh('tr_d', smt.I)
        self._add_axiom(d >= 0)
        self.st.ghost['tr_len'] = smt.simp(old_len + d)
        for f in self.TRACE_FIELDS:
            old_arr = self.st.ghost['tr_' + f]
            new_arr = self.fresh('tr_' + f, z3.ArraySort(smt.I, Val))
            self.trace_parent[new_arr.get_id()] = (old_arr, old_len)
            self.st.ghost['tr_' + f] = new_arr

    def trace_read(self, f: str, i):
        arr = self.st.ghost['tr_' + f]
        v = smt.simp(z3.Select(arr, i))
        # prefix preservation down the havoc chain
        cur = arr
        for _ in range(32):
            while z3.is_app(cur) and cur.decl().kind() == z3.Z3_OP_STORE:
                cur = cur.arg(0)
            par = self.trace_parent.get(cur.get_id())
            if par is None:
                break
            parr, plen = par
            self._add_axiom(z3.Implies(z3.And(i >= 0, i < plen), z3.Select(cur, i) == z3.Select(parr, i)))
            cur = parr
        n = self.st.ghost['tr_len']
        inr = z3.And(i >= 0, i < n)
        if f in ('kind', 'outcome'):
            self._add_axiom(z3.Implies(inr, Val.is_str(v)))
            self.kind_hint.setdefault(v.get_id(), 'str')
        else:
            self.bound_ref(v)
        if f == 'outcome':
            self._add_axiom(z3.Implies(inr, z3.Or(v == smt.mk_str('ret'), v == smt.mk_str('raise'))))
        if f in ('args', 'kwargs') and smt.static_id(v) is None:
            K = builtin_class('tuple' if f == 'args' else 'dict')
            self.use_class(K)
            self._add_axiom(z3.Implies(inr, z3.And(Val.is_ref(v), Val.r(v) >= 0, smt.cls_of(Val.r(v)) == K.cid)))
            self.hint_cls.setdefault(v.get_id(), K)
        return v

    def prim_gather_calls(self, e, fr):
        return smt.simp(Val.int(self.st.ghost['gathers']))

    def ghost_note(self, what: str, v) -> None:
        if what == 'gather':
            self.st.ghost['gathers'] = smt.simp(self.st.ghost['gathers'] + 1)

    def prim_tlen(self, e, fr):
        return smt.simp(Val.int(self.st.ghost['tr_len']))

    def _trace_prim(self, f, e, fr):
        i = self.ev(e.args[0], fr)
        return self.trace_read(f, smt.int_of(i))

    def prim_ev_kind(self, e, fr):
        return self._trace_prim('kind', e, fr)

    def prim_ev_callee(self, e, fr):
        return self._trace_prim('callee', e, fr)

    def prim_ev_args(self, e, fr):
        return self._trace_prim('args', e, fr)

    def prim_ev_kwargs(self, e, fr):
        return self._trace_prim('kwargs', e, fr)

    def prim_ev_outcome(self, e, fr):
        return self._trace_prim('outcome', e, fr)

    def prim_ev_value(self, e, fr):
        return self._trace_prim('value', e, fr)

    # ==================================================================================== oracles
    def oracle_hook(self, fv, args, kwargs, star, dstar, node=None):
        """call of an abstract user callable: recorded in the ghost trace; the outcome is a fresh value /
        exception constrained only by the user contract stated for its kind (contracts/oracles.py)"""
        c = self.class_of(fv)
        spec = self.oracles.get(c.name if c is not None else '', {'returns': 'any', 'raises': ('Exception',)})
        items = list(args)
        if star is not None:
            at = self.alloc(builtin_class('tuple'))
            self.set_seq(at, z3.Concat(self.seq_of_items(items), self.get_seq(star)) if items else self.get_seq(star))
        else:
            at = self.mk_tuple(items)
        if dstar is not None:
            kd = self.dict_copy(dstar)
            for k, v in kwargs.items():
                self.dict_set(kd, smt.mk_str(k), v)
        else:
            kd = self.mk_dict([(smt.mk_str(k), v) for k, v in kwargs.items()])
        return self.oracle_outcome(spec, 'call', fv, at, kd)

    def bi_asyncio_iscoroutine(self, args, kwargs):
        f = z3.Function('is_coro', Val, z3.BoolSort())
        return self.to_val_bool(f(args[0]))

    def await_hook(self, v):
        """await-erasure: library coroutines were evaluated at the call; a coroutine produced by an abstract
        user callable is resolved here (second event, same user contract)"""
        f = z3.Function('is_coro', Val, z3.BoolSort())
        if smt.static_id(v) is not None or smt.tag_of(v) in ('none', 'bool', 'int', 'flt', 'str'):
            return v
        if not smt.simp(v).decl().name().startswith('orc!'):
            return v
        if not self.branch(f(v)):
            return v
        spec = self.orc_spec.get(smt.simp(v).get_id()) or self.oracles.get('UserMethod')
        return self.oracle_outcome(spec, 'await', v, self.mk_tuple([]), self.mk_dict([]))

    def ev_Await(self, e, fr):
        if isinstance(e.value, ast.Call):
            saved = self.awaited_call
            self.awaited_call = True
            try:
                v = self.ev(e.value, fr)
            finally:
                self.awaited_call = saved
            return self.await_value(v, e)
        return super().ev_Await(e, fr)

    def assumed_method(self, name, recv, args, kwargs, star, dstar, node=None):
        if name.startswith('oracle.'):
            _, cname, mname = name.split('.', 2)
            spec = self.oracle_methods[cname][mname]
            if star is not None:
                at = self.alloc(builtin_class('tuple'))
                self.set_seq(at, z3.Concat(self.seq_of_items(list(args)), self.get_seq(star)) if args else self.get_seq(star))
            else:
                at = self.mk_tuple(list(args))
            if dstar is not None:
                kd = self.dict_copy(dstar)
                for k, v in kwargs.items():
                    self.dict_set(kd, smt.mk_str(k), v)
            else:
                kd = self.mk_dict([(smt.mk_str(k), v) for k, v in kwargs.items()])
            return self.oracle_outcome(spec, f'call:{mname}', recv, at, kd)
        return NotImplemented

    def gen_next_hook(self, it, so, rest):
        c = self.class_of(it)
        if c is not None and c.name in self.oracle_methods and '__next__' in self.oracle_methods[c.name]:
            spec = self.oracle_methods[c.name]['__next__']
            return self.oracle_outcome(spec, 'call:__next__', it, self.mk_tuple([]), self.mk_dict([]))
        self.unsupported(f'next() on {c.name if c else "?"}')

    def record_event(self, kind: str, fv, at, kd, outcome: str, value) -> None:
        n = self.st.ghost['tr_len']
        vals = dict(kind=smt.mk_str(kind), callee=fv, args=at, kwargs=kd, outcome=smt.mk_str(outcome), value=value)
        for f in self.TRACE_FIELDS:
            self.st.ghost['tr_' + f] = z3.Store(self.st.ghost['tr_' + f], n, vals[f])
        self.st.ghost['tr_len'] = smt.simp(n + 1)

    def oracle_outcome(self, spec, kind: str, fv, at, kd):
        raises = list(spec.get('raises', ()))
        k = self.choose([z3.BoolVal(True)] * (1 + len(raises))) if raises else 0
        if k == 0:
            res = self.fresh('orc')
            self.mark_external(res)
            self.assume_type(res, spec.get('returns', 'any'))
            rinv = spec.get('returned_invariant')
            if rinv:
                cl = self.index.find(rinv)
                self.assume_checked(self.clause_holds(cl, {cl.node.args.args[0].arg: res}))
            self.orc_spec[res.get_id()] = spec
            if self.awaited_call:
                # `await f(...)`: the coroutine is consumed at once; its outcome is the call's outcome
                self._add_axiom(z3.Not(z3.Function('is_coro', Val, z3.BoolSort())(res)))
            self.record_event(kind, fv, at, kd, 'ret', res)
            return res
        K = self.resolve_class(raises[k - 1])
        exc = self.fresh('oexc')
        self.assume_type(exc, K.qualname if not K.builtin else K.name)
        self.assume(Val.r(exc) < smt.FRESH_BASE)
        inv = spec.get('raised_invariant')
        if inv:
            cl = self.index.find(inv)
            self.assume_checked(self.clause_holds(cl, {cl.node.args.args[0].arg: exc}))
        self.record_event(kind, fv, at, kd, 'raise', exc)
        raise PyRaise(exc, 'abstract user callable')

    # ==================================================================================== contracts at call sites
    def bind_for_contract(self, fi: FuncInfo, args, kwargs, star, dstar, node=None) -> Dict[str, Any]:
        fr = Frame(fi, fi.module)
        dfr = Frame(None, fi.module)
        defaults = self.eval_defaults(fi.node.args, dfr)
        self.bind_params(fi, fr, defaults, args, kwargs, star, dstar, node)
        return fr.locals

    def call_clause(self, clause: FuncInfo, env: Dict[str, Any]):
        a = clause.node.args
        names = [x.arg for x in a.posonlyargs + a.args + a.kwonlyargs]
        fr = Frame(clause, clause.module)
        fr.is_spec = True
        for n in names:
            if n not in env:
                self.unsupported(f'contract clause {clause.qualname} uses unknown parameter {n}')
            fr.locals[n] = env[n]
        saved = self.depth
        self.depth = 0
        try:
            self.ex_block(clause.node.body, fr)
        except ReturnSig as r:
            return r.val
        except PyRaise as pr:
            c = self.class_of(pr.exc)
            raise Unsupported(f'contract clause {clause.qualname} raised {c.name if c else "?"} ({pr.origin})')
        finally:
            self.depth = saved
        return smt.NONE

    def clause_holds(self, clause: FuncInfo, env: Dict[str, Any]):
        """the clause as ONE formula (all its sub-paths merged), so contracts do not fork the caller"""
        return self.merged_truth(lambda: self.truthy(self.call_clause(clause, env)), clause.qualname)

    def apply_contract(self, ct: Contract, fi: FuncInfo, args, kwargs, star, dstar, node=None, extra_env=None):
        env = self.bind_for_contract(fi, args, kwargs, star, dstar, node)
        for cn, cv in (extra_env or {}).items():
            env[cn] = cv
            spec = (ct.extra.get('closure') or {}).get(cn)
            if spec:
                self.oblige('requires@callee', f'{fi.qualname}: closure {cn} : {spec}', self.type_formula(cv, spec),
                            ct.props)
        where = f'{fi.qualname}@{getattr(node, "lineno", "?")}'
        cur = getattr(self, 'current_contract', None)
        site_props = tuple(dict.fromkeys((cur.props if cur is not None else ()) + ct.props))
        # caller proves the callee's typing and preconditions
        for p, spec in ct.types.items():
            if p in env:
                self.oblige('requires@callee', f'{where}: {p} : {spec}', self.type_formula(env[p], spec), site_props)
        for p, q in ct.pins.items():
            if p in env:
                self.oblige('requires@callee', f'{where}: {p} is {q}', env[p] == self.pin_val(q), site_props)
        for rq in ct.requires:
            self.oblige('requires@callee', f'{where}: {rq.name}', self.clause_holds(rq, env), site_props)
        for rq in ct.extra.get('callsite_requires', []):
            # protocol condition on the library's OWN call sites (proved there, never assumed in the callee's proof)
            self.oblige('requires@callsite', f'{where}: {rq.name}', self.clause_holds(rq, env),
                        tuple(dict.fromkeys(site_props + ct.props_of(rq.name))))
        saved_old = self.old
        self.old = self.st.snapshot()          # old() inside the callee's clauses = state before this call
        try:
            return self._apply_contract_outcome(ct, fi, env)
        finally:
            self.old = saved_old

    def _apply_contract_outcome(self, ct: Contract, fi: FuncInfo, env: Dict[str, Any]):
        # outcome conditions speak about the PRE-state: evaluate them before the frame is havocked
        raises = list(ct.raises_only)
        cond = None
        if ct.returns_iff is not None:
            cond = self.clause_holds(ct.returns_iff, env)
        guards = [cond if cond is not None else z3.BoolVal(True)]
        cur = getattr(self, 'current_contract', None)
        if cur is not None and fi.qualname in cur.extra.get('assume_no_raise', {}):
            # an ASSUMED lemma of the enclosing function's contract (listed in its trusted base): on this call
            # the callee's raising outcomes cannot occur
            raises = []
            if cond is not None:
                self.assume_checked(cond)
            guards = [z3.BoolVal(True)]
        iffs = {}
        for rc in raises:
            g = z3.Not(cond) if cond is not None else z3.BoolVal(True)
            short = rc.split(':')[-1].split('.')[-1]
            if short in ct.raises_iff:
                g = iffs[short] = self.clause_holds(ct.raises_iff[short], env)
            guards.append(g)
        if iffs and len(guards) > 1:
            # equivalences: a normal return (and any other exception) means the condition was false
            guards[0] = z3.And(guards[0], *[z3.Not(g) for g in iffs.values()])
            for j, rc in enumerate(raises):
                short = rc.split(':')[-1].split('.')[-1]
                Kj = self.resolve_class(rc)
                others = [g for kn, g in iffs.items() if kn != short
                          and not Kj.is_subclass(self.resolve_class(next(r for r in raises if r.split(':')[-1].split('.')[-1] == kn)))]
                if others:
                    guards[j + 1] = z3.And(guards[j + 1], *[z3.Not(g) for g in others])
        self.havoc_modifies(ct, env)
        if len(guards) == 1:
            k = 0
            self.assume(guards[0])
        else:
            k = self.choose_free(guards)
        if k == 0:
            return self.contract_result(ct, env)
        K = self.resolve_class(raises[k - 1])
        exc = self.alloc_havoc(K)
        env2 = dict(env)
        env2['exc'] = exc
        for cl in ct.ensures_on.get(K.name, []):
            self.assume_checked(self.clause_holds(cl, env2))
        raise PyRaise(exc, f'contract of {fi.qualname}')

    def choose_free(self, guards: List[Any]) -> int:
        """n-way choice where each option carries its guard (options need not be exclusive)"""
        return self.choose(guards)

    def contract_result(self, ct: Contract, env: Dict[str, Any]):
        if ct.result_fresh and ct.result_type:
            K = self.resolve_class(ct.result_type.lstrip('='))
            res = self.alloc_havoc(K)
            for an, cn in (ct.extra.get('result_fresh_attrs') or {}).items():
                # an attribute of the new object that is itself a new object (owned by the result)
                self.set_attr_raw(res, an, self.alloc_havoc(self.resolve_class(cn)))
        else:
            res = self.fresh('res')
            if ct.result_type:
                # a typed result is an object produced by the callee: never one of the caller's own allocations
                self.mark_external(res)
                if self.sub_depth > 0:
                    self._add_axiom(self.type_formula(res, ct.result_type))     # typing of a new symbol: an axiom
                    self.bound_ref(res)
                else:
                    self.assume_type(res, ct.result_type)
            else:
                self.bound_ref(res)
                self._add_axiom(res != smt.ABSENT)
        env2 = dict(env)
        env2['ret' if 'result' in env else 'result'] = res
        cur = getattr(self, 'current_contract', None)
        only = (cur.extra.get('callee_ensures_only', {}) if cur is not None else {}).get(ct.target)
        for cl in ct.ensures:
            if only is not None and cl.name not in only:
                continue          # assuming fewer facts about a callee is always sound (and cheaper)
            self.assume_about_fresh(self.clause_holds(cl, env2))
        return res

    def assume_about_fresh(self, f) -> None:
        """a callee postcondition about a FRESH result symbol.  On a top-level path it is a plain assumption.  While
        a clause / quantified predicate is being merged into one formula it must not become part of that formula
        (its negation would then be satisfiable by 'violating' the callee contract): it is the axiom
        guards-so-far => postcondition, a conservative extension since the symbol is new."""
        if self.sub_depth > 0 and self.sub_bases:
            b0 = self.sub_bases[-1]
            g = [c for c, ax in zip(self.pc[b0:], self.pc_axiom[b0:]) if not ax]
            self._add_axiom(z3.Implies(z3.And(*g), f) if g else f)
            if not self.feasible():
                raise Infeasible()
            return
        self.assume_checked(f)

    def alloc_havoc(self, K: ClassInfo):
        o = self.alloc(K)
        if K.builtin and K.name in ('dict', 'set', 'defaultdict'):
            # a new container with unknown contents
            r = smt.simp(Val.r(o))
            self.st.dct = z3.Store(self.st.dct, r, self.fresh('hv_dict', smt.DictV))
            n = self.fresh('hv_dlen', smt.I)
            self._add_axiom(n >= 0)
            self.st.dlen = z3.Store(self.st.dlen, r, n)
            return o
        if K.builtin and K.name in ('list', 'tuple'):
            self.st.seq = z3.Store(self.st.seq, smt.simp(Val.r(o)), self.fresh('hv_seq', smt.SeqV))
            return o
        for a in sorted(self.declared_attrs(K)):
            v = self.fresh(f'h_{a}')
            self.bound_ref(v)
            self._add_axiom(v != smt.ABSENT)
            self.set_attr_raw(o, a, v)
        if K.is_subclass(builtin_class('BaseException')) and 'args' not in self.declared_attrs(K):
            t = self.alloc(builtin_class('tuple'))
            self.set_seq(t, self.fresh('excargs', smt.SeqV))
            self.set_attr_raw(o, 'args', t)
        return o

    def pin_val(self, q: str):
        r = self.index.find(q)
        if isinstance(r, ClassInfo):
            return smt.mk_ref(r.cid)
        if isinstance(r, FuncInfo):
            return self.func_val(r)
        c = builtin_class(q)
        if c is not None:
            return smt.mk_ref(c.cid)
        raise Unsupported(f'cannot pin to {q}')

    def havoc_modifies(self, ct: Contract, env: Dict[str, Any]) -> None:
        # every entry names a location of the callee's PRE-state: resolve all of them before havocking any
        mod = self.index.modules.get(ct.module)
        pre = {}
        for loc in ct.modifies:
            if not (loc in ('$fresh', '$containers') or loc.startswith('*.') or (loc.startswith('$') and '(' not in loc)):
                pre[loc] = self.loc_target(loc, env, mod)
        for loc in ct.modifies:
            self.havoc_location(loc, env, pre.get(loc))

    def havoc_location(self, loc: str, env: Dict[str, Any], resolved=None) -> None:
        """loc: 'param.attr' (attribute cell) | '$seq(param.attr)' | '$dict(param.attr)' contents"""
        if loc == '$fresh':
            # contents of every container allocated by the analysed call so far (its private temporaries)
            for r in self.fresh_refs:
                c = self.alloc_cls.get(r)
                if c is None or not c.builtin:
                    continue
                if c.name in ('list',):
                    self.st.seq = z3.Store(self.st.seq, r, self.fresh('hv_seq', smt.SeqV))
                elif c.name in ('dict', 'set', 'defaultdict'):
                    self.st.dct = z3.Store(self.st.dct, r, self.fresh('hv_dict', smt.DictV))
                    n = self.fresh('hv_dlen', smt.I)
                    self._add_axiom(n >= 0)
                    self.st.dlen = z3.Store(self.st.dlen, r, n)
            return
        if loc == '$containers':
            self.havoc_containers()
            return
        if loc.startswith('*.'):
            # wildcard frame entry '*.attr': the attribute cell `attr` of ANY object may have been (re)assigned - the
            # attribute array gets a new base (field typing invariants are re-assumed lazily on it, as for entry reads)
            attr = loc[2:]
            self.hv_count = getattr(self, 'hv_count', 0) + 1
            old_arr = self.attr_array(attr)
            self.st.attrs[attr] = z3.Const(f'H_attr_{attr}!hv{self.hv_count}_{self.fresh_counter}', old_arr.sort())
            self.writes.append(('*.' + attr, z3.IntVal(-1), ''))
            return
        if loc.startswith('$') and '(' not in loc:
            self.havoc_ghost(loc[1:])
            return
        cur = getattr(self, 'current_contract', None)
        kind, r, attr, _ok = resolved if resolved is not None else \
            self.loc_target(loc, env, self.index.modules.get(cur.module) if cur is not None else None)
        if kind == 'attr':
            owner = smt.simp(Val.ref(r))
            nv = self.fresh(f'hv_{attr}')
            self.mark_external(nv)               # whatever the callee stored is not one of OUR allocations
            self.set_attr_raw(owner, attr, nv)
            oc = self.class_of(owner)
            ft = self.field_type(oc, attr) if oc is not None else None
            if ft is not None:
                self.apply_field_type(nv, ft)    # class invariant of the owner (field typing)
            return
        # a path that names no object (absent cell) names no location: conditional havoc
        ok = smt.simp(_ok)
        if kind in ('seq', 'contents'):
            self.st.seq = z3.Store(self.st.seq, r, z3.If(ok, self.fresh('hv_seq', smt.SeqV), z3.Select(self.st.seq, r)))
            self.writes.append(('$seq', r, ok))
        if kind in ('dict', 'contents'):
            self.st.dct = z3.Store(self.st.dct, r, z3.If(ok, self.fresh('hv_dict', smt.DictV), z3.Select(self.st.dct, r)))
            n = self.fresh('hv_dlen', smt.I)
            self._add_axiom(n >= 0)
            self.st.dlen = z3.Store(self.st.dlen, r, z3.If(ok, n, z3.Select(self.st.dlen, r)))
            self.writes.append(('$dict', r, ok))

    # ==================================================================================== top level
    def on_failed_obligation(self, ob: Obligation) -> None:
        ob.info['params'] = dict(self.param_vals)
        ob.info['state'] = self.st.snapshot()
        ob.info['old'] = self.old
        ob.info['statics'] = dict(self.path_statics)
        ob.info['dict_probes'] = list(self.dict_probes)
        ob.info['attr_reads'] = list(self.attr_reads)

    def symbolic_params(self, fi: FuncInfo, ct: Contract):
        a: ast.arguments = fi.node.args
        args: List[Any] = []
        kwargs: Dict[str, Any] = {}
        star = dstar = None
        vals: Dict[str, Any] = {}

        def mk(name: str):
            spec0 = ct.types.get(name, '')
            if spec0.startswith('oneof:'):
                opts = [self.pin_val(q) for q in spec0[6:].split(',')]
                v = opts[self.choose([z3.BoolVal(True)] * len(opts))]
                vals[name] = v
                return v
            if name in ct.pins:
                v = self.pin_val(ct.pins[name])
            else:
                v = z3.Const(f'p_{name}', Val)
                self.bound_ref(v)
                self._add_axiom(v != smt.ABSENT)
            vals[name] = v
            return v

        pos = a.posonlyargs + a.args
        for i, p in enumerate(pos):
            if i == 0 and fi.cls is not None and fi.name == '__init__' and fi.kind == 'method':
                # a constructor runs on a freshly allocated, uninitialised object of the class or a subclass
                cidt = self.fresh('newcls', smt.I)
                self.assume(self.sub_chain(cidt, fi.cls))
                v = self.alloc_symbolic_class(cidt)
                self.set_class(v, fi.cls, exact=False)
                vals[p.arg] = v
                args.append(v)
                continue
            v = mk(p.arg)
            if i == 0 and fi.cls is not None and fi.kind in ('method', 'property'):
                self.assume_type(v, fi.cls.qualname)
                self.hint_cls[smt.simp(v).get_id()] = fi.cls
            if i == 0 and fi.cls is not None and fi.kind == 'classmethod' and p.arg not in ct.types \
                    and p.arg not in ct.pins:
                vals[p.arg] = v = smt.mk_ref(fi.cls.cid)
            args.append(v)
        if a.vararg is not None:
            star = self.alloc_input(builtin_class('tuple'), f'p_{a.vararg.arg}')
            vals[a.vararg.arg] = star
        for p in a.kwonlyargs:
            kwargs[p.arg] = mk(p.arg)
        if a.kwarg is not None:
            dstar = self.alloc_input(builtin_class('dict'), f'p_{a.kwarg.arg}')
            vals[a.kwarg.arg] = dstar
        return args, kwargs, star, dstar, vals

    def alloc_input(self, c: ClassInfo, name: str):
        v = z3.Const(name, Val)
        self.assume(z3.And(Val.is_ref(v), Val.r(v) >= 0, Val.r(v) < smt.FRESH_BASE, smt.cls_of(Val.r(v)) == c.cid))
        self.use_class(c)
        self.known_cls[smt.simp(v).get_id()] = c
        self.old_terms.add(smt.simp(v).get_id())
        self.bounded.add(smt.simp(v).get_id())
        return v

    def verify_one_path(self, fi: FuncInfo, ct: Contract, decisions: List[int]):
        """explore exactly ONE path (the one selected by the decision prefix, extended greedily) and return
        (FuncResult for that path, alternatives discovered).  Paths are independent under the re-execution model,
        so a scheduler can run them on different cores."""
        t0 = time.time()
        res = FuncResult(qualname=fi.qualname, contract=f'{ct.module}:{ct.name}', sha1=fi.sha1())
        self.current_func = fi.qualname
        self.current_contract = ct
        self.fast_feasibility = bool(ct.extra.get('fast_feasibility', False))
        self.use_summaries = bool(ct.extra.get('spec_summaries', False))
        self.obligations = []
        self.pending = []
        self.stats = dict(paths=1, branches=0, feas_checks=0, solver_s=0.0, obligations=0)
        self.no_contract_for = {fi.qualname}
        self.loop_contracts = {(fi.qualname, n): lc for n, lc in ct.invariants.items()}
        self.reset_path(list(decisions))
        self.path_tag = '.'.join(str(d) for d in decisions)
        rec = self.run_path(fi, ct, res)
        res.paths.append(rec)
        if rec.outcome == 'unsupported':
            res.unsupported.append(rec.detail)
        res.obligations = list(self.obligations)
        res.stats = dict(self.stats)
        res.wall_s = time.time() - t0
        if rec.outcome.startswith(('return', 'raise')):
            res.covers[rec.outcome] = 1
        return res, [list(p) for p in self.pending]

    def verify_function(self, fi: FuncInfo, ct: Contract, max_paths: int = MAX_PATHS) -> FuncResult:
        t0 = time.time()
        res = FuncResult(qualname=fi.qualname, contract=f'{ct.module}:{ct.name}', sha1=fi.sha1())
        self.current_func = fi.qualname
        self.current_contract = ct
        self.path_tag = ''
        self.fast_feasibility = bool(ct.extra.get('fast_feasibility', False))
        self.use_summaries = bool(ct.extra.get('spec_summaries', False))
        self.obligations = []
        self.pending = [[]]
        self.stats = dict(paths=0, branches=0, feas_checks=0, solver_s=0.0, obligations=0)
        self.no_contract_for = {fi.qualname}
        self.loop_contracts = {(fi.qualname, n): lc for n, lc in ct.invariants.items()}
        seen_unsupported = set()
        while self.pending:
            if self.stats['paths'] >= max_paths:
                res.unsupported.append(f'path limit {max_paths} exceeded')
                break
            decisions = self.pending.pop()
            self.reset_path(decisions)
            self.stats['paths'] += 1
            tp = time.time()
            rec = self.run_path(fi, ct, res)
            res.paths.append(rec)
            if os.environ.get('PYVC_DEBUG'):
                print(f'[path {self.stats["paths"]}] {rec.outcome} {rec.detail[:80]} dec={len(rec.decisions)} '
                      f'pending={len(self.pending)} {time.time() - tp:.1f}s checks={self.stats["feas_checks"]} '
                      f'hits={self.stats.get("model_hits", 0)} obl={len(self.obligations)}', flush=True)
            if rec.outcome == 'unsupported' and rec.detail not in seen_unsupported:
                seen_unsupported.add(rec.detail)
                res.unsupported.append(rec.detail)
        res.obligations = list(self.obligations)
        res.stats = dict(self.stats)
        res.wall_s = time.time() - t0
        live = [p for p in res.paths if p.outcome.startswith(('return', 'raise'))]
        res.vacuous = not live and not res.unsupported
        for p in live:
            res.covers[p.outcome] = res.covers.get(p.outcome, 0) + 1
        return res

    def run_path(self, fi: FuncInfo, ct: Contract, res: FuncResult) -> PathRecord:
        try:
            args, kwargs, star, dstar, vals = self.symbolic_params(fi, ct)
            target = fi
            clo = ct.extra.get('closure')
            if clo:
                pfr = Frame(None, fi.module)
                for cn, cspec in clo.items():
                    cv = z3.Const(f'c_{cn}', Val)
                    self.bound_ref(cv)
                    self._add_axiom(cv != smt.ABSENT)
                    self.assume_type(cv, cspec)
                    pfr.locals[cn] = cv
                    vals[cn] = cv
                target = Closure(fi, pfr, self.eval_defaults(fi.node.args, pfr))
            self.param_vals = vals
            for p, spec in ct.types.items():
                if p not in vals:
                    raise Unsupported(f'contract {ct.name} types unknown parameter {p}')
                self.assume_type(vals[p], spec)
            for rq in ct.requires:
                self.assume(self.clause_holds(rq, vals))
            if not self.feasible():
                raise Infeasible()
            self.old = self.st.snapshot()
            self.writes = []
            self.frame_hook = lambda: self.check_frame(fi, ct, vals)
            try:
                result = self.call_function(target, args, kwargs, star, dstar)
                outcome = 'return'
            except PyRaise as pr:
                result = pr
                c = self.class_of(pr.exc)
                outcome = f'raise:{c.name if c is not None else "?"}'
            if self.cross_check:
                self.do_cross_check(fi, ct, outcome, res)
            if outcome == 'return':
                self.check_return(fi, ct, vals, result)
            else:
                self.check_raise(fi, ct, vals, result)
            return PathRecord(tuple(self.decisions), outcome, pc_size=len(self.pc))
        except Infeasible:
            return PathRecord(tuple(self.decisions), 'infeasible')
        except PathEnd:
            return PathRecord(tuple(self.decisions), 'end')
        except Unsupported as u:
            return PathRecord(tuple(self.decisions), 'unsupported', str(u))
        except (ReturnSig, ) as s:
            return PathRecord(tuple(self.decisions), 'unsupported', f'stray control signal {type(s).__name__}')
        except z3.Z3Exception as ex:
            return PathRecord(tuple(self.decisions), 'unsupported', f'z3 error: {ex}')

    def path_info(self) -> Dict[str, Any]:
        return dict(params=dict(self.param_vals), old=self.old, statics=dict(self.path_statics),
                    dict_probes=list(self.dict_probes), attr_reads=list(self.attr_reads))

    def do_cross_check(self, fi: FuncInfo, ct: Contract, outcome: str, res: FuncResult) -> None:
        """CPython cross-check of the encoding: a model of this path's condition is concretised and the
        real function is run on it; the native outcome class must be the one predicted here."""
        from .replay import replay
        key = (outcome, tuple(self.decisions[:self.pos]))
        # lazily instantiated universal facts: make the model respect them on the first few positions
        for k in list(self.q_facts):
            sq = self.q_seqs.get(k)
            if sq is not None:
                for i in range(3):
                    self.note_index(sq, z3.IntVal(i))
        s = self._sync_solver()
        if s.check() != z3.sat:
            return
        rep = replay(self, fi, ct, s.model(), self.path_info())
        rec = {'predicted': outcome, 'native': rep.get('outcome'), 'status': rep.get('status'),
               'inputs': rep.get('inputs'), 'detail': rep.get('detail')}
        if rec['predicted'] != rec['native'] and rec['status'] not in ('unrealisable',):
            # a path whose condition depends on an UNINTERPRETED spec predicate (assumed semantics, e.g. the duplicate
            # check) has models no concrete input realises: not a disagreement between engine and CPython
            s_model = s.model()
            if any(d.name().startswith(('uf_dup_in', 'uf_binds', 'uf_exc_listed')) for d in s_model.decls()):
                rec['status'] = 'unrealisable'
                rec['detail'] = 'path condition depends on an uninterpreted (assumed) spec predicate'
        self.cross.append(rec)

    def check_return(self, fi: FuncInfo, ct: Contract, vals: Dict[str, Any], result) -> None:
        env = dict(vals)
        # the return value is `result` in postconditions - `ret` where the function has a PARAMETER called result
        env['ret' if 'result' in vals else 'result'] = result
        skip = set(ct.extra.get('assumed_clauses', ()))
        if ct.returns_iff is not None and 'returns_iff' not in skip:
            saved = self.st.snapshot()
            self.st.restore(self.old)
            c = self.clause_holds(ct.returns_iff, vals)
            self.st.restore(saved)
            self.oblige('returns_iff', 'returned normally, so the returns_iff condition must hold', c,
                        ct.props_of('returns_iff'))
        for kn, cl in ct.raises_iff.items():
            # raises_<K>_iff is an equivalence: a normal return shows its condition was false
            if f'raises_{kn}_iff' in skip:
                continue
            saved = self.st.snapshot()
            self.st.restore(self.old)
            c = self.clause_holds(cl, vals)
            self.st.restore(saved)
            self.oblige('raises_iff', f'returned normally, so the condition of raising {kn} must be false', z3.Not(c),
                        ct.props_of(f'raises_{kn}_iff'))
        if ct.result_type:
            self.oblige('result_type', f'result : {ct.result_type}', self.type_formula(result, ct.result_type),
                        ct.props_of('result_type'))
        if ct.result_fresh:
            self.oblige('result_fresh', 'the result is an object allocated by this call',
                        z3.And(Val.is_ref(result), Val.r(result) >= smt.FRESH_BASE), ct.props_of('result_fresh'))
            for an, cn in (ct.extra.get('result_fresh_attrs') or {}).items():
                av = smt.simp(z3.Select(self.attr_array(an), Val.r(result)))
                self.oblige('result_fresh', f'result.{an} is a {cn} allocated by this call, distinct from the result',
                            z3.And(Val.is_ref(av), Val.r(av) >= smt.FRESH_BASE, av != result,
                                   self.type_formula(av, '=' + cn)), ct.props_of('result_fresh'))
        for cl in ct.ensures:
            if cl.name in skip:
                continue
            self.oblige('ensures', cl.name, self.clause_holds(cl, env), ct.props_of(cl.name))
        self.check_frame(fi, ct, vals)

    def check_raise(self, fi: FuncInfo, ct: Contract, vals: Dict[str, Any], pr: PyRaise) -> None:
        allowed = [self.resolve_class(q) for q in ct.raises_only]
        exc = pr.exc
        conds = [self.isinstance_term(exc, smt.mk_ref(K.cid)) for K in allowed]
        c = self.class_of(exc)
        self.oblige('raises_only',
                    f'escaping {c.name if c else "exception"} ({pr.origin}) must be one of '
                    f'{[k.name for k in allowed]}',
                    z3.Or(*conds) if conds else z3.BoolVal(False), ct.props_of('raises_only'),
                    info={'origin': pr.origin})
        skip = set(ct.extra.get('assumed_clauses', ()))
        if ct.returns_iff is not None and 'returns_iff' not in skip:
            saved = self.st.snapshot()
            self.st.restore(self.old)
            cnd = self.clause_holds(ct.returns_iff, vals)
            self.st.restore(saved)
            self.oblige('returns_iff', 'raised, so the returns_iff condition must be false', z3.Not(cnd),
                        ct.props_of('returns_iff'))
        env = dict(vals)
        env['exc'] = exc
        for K in allowed:
            if K.name in ct.raises_iff and c is not None and c.is_subclass(K):
                saved = self.st.snapshot()
                self.st.restore(self.old)
                cnd = self.clause_holds(ct.raises_iff[K.name], vals)
                self.st.restore(saved)
                self.oblige('raises_iff', f'raised {K.name}, so its condition must hold', cnd,
                            ct.props_of(f'raises_{K.name}_iff'))
            if K.name in ct.raises_iff and c is not None and not c.is_subclass(K) and \
                    not any(k2 is not K and c.is_subclass(k2) and K.is_subclass(k2) for k2 in allowed):
                saved = self.st.snapshot()
                self.st.restore(self.old)
                cnd = self.clause_holds(ct.raises_iff[K.name], vals)
                self.st.restore(saved)
                self.oblige('raises_iff', f'raised {c.name}, not {K.name}, so the condition of {K.name} must be false',
                            z3.Not(cnd), ct.props_of(f'raises_{K.name}_iff'))
            if c is not None and c.is_subclass(K):
                for cl in ct.ensures_on.get(K.name, []):
                    self.oblige('ensures_on', cl.name, self.clause_holds(cl, env), ct.props_of(cl.name))
        self.check_frame(fi, ct, vals)

    def loc_target(self, loc: str, env: Dict[str, Any], module=None):
        """(kind, owner ref term, attribute) of a modifies entry: 'p.a.b' -> ('attr', r(p.a), 'b');
        '$seq(p.a)' / '$dict(p.a)' -> contents of that container; a bare parameter 'p' -> contents of p"""
        kind, expr = 'attr', loc
        if loc.startswith('$seq(') or loc.startswith('$dict('):
            kind = loc[1:loc.index('(')]
            expr = loc[loc.index('(') + 1:-1]
        parts = expr.split('.')
        if parts[0] in env:
            v, path = env[parts[0]], parts[1:]
        else:
            # a module-level / external global named from the contract module (e.g. flask.request)
            if module is None:
                raise Unsupported(f'modifies entry {loc}: unknown root {parts[0]}')
            # everything but the last attribute is an ordinary expression of the contract module (flask.request)
            fr = Frame(None, module)
            pre = parts if kind != 'attr' else parts[:-1]
            v = self.ev(ast.parse('.'.join(pre), mode='eval').body, fr)
            path = [] if kind != 'attr' else parts[-1:]
            if kind == 'attr':
                return ('attr', smt.simp(Val.r(v)), path[0], Val.is_ref(v))
        def step(v, a):
            # raw cell read (no branching, no AttributeError): an absent cell names no object - see the guard
            return smt.simp(z3.Select(self.attr_array(a), Val.r(v)))
        if kind == 'attr':
            if not path:
                return ('contents', smt.simp(Val.r(v)), None, Val.is_ref(v))
            for a in path[:-1]:
                v = step(v, a)
            return ('attr', smt.simp(Val.r(v)), path[-1], Val.is_ref(v))
        for a in path:
            v = step(v, a)
        return (kind, smt.simp(Val.r(v)), None, Val.is_ref(v))

    def check_frame(self, fi: FuncInfo, ct: Contract, vals: Dict[str, Any]) -> None:
        """frame condition: every heap cell written (directly, by an inlined callee, or havocked on behalf of a callee
        contract) belongs to an object allocated by this very call or is listed in `modifies`.  The listed locations
        are resolved in the ENTRY state."""
        if ct.extra.get('lemma') or ct.extra.get('frame_unchecked'):
            return
        pending = [(f, smt.simp(r), g) for f, r, g in self.writes]
        seen = set()
        todo = []
        for f, r, g in pending:
            if z3.is_int_value(r) and r.as_long() >= smt.FRESH_BASE:
                continue
            g = None if isinstance(g, str) or z3.is_true(g) else g
            k = (f, r.get_id(), g.get_id() if g is not None else 0)
            if k in seen:
                continue
            seen.add(k)
            todo.append((f, r, g))
        fprops = tuple(dict.fromkeys(tuple(ct.props) + tuple(ct.clause_props.get('modifies', ()))))
        self.oblige('frame', f'{len(pending)} heap writes on this path: {len(pending) - len(todo)} into objects allocated '
                             f'by this call (decided syntactically), {len(todo)} checked against modifies='
                             f'{list(ct.modifies)}', z3.BoolVal(True), fprops)
        if not todo:
            return
        allowed = []
        cur = self.st.snapshot()
        self.st.restore(self.old)
        w0 = len(self.writes)
        try:
            mod = self.index.modules.get(ct.module)
            for loc in ct.modifies:
                if (loc.startswith('$') and '(' not in loc) or loc.startswith('*.'):
                    continue
                allowed.append(self.loc_target(loc, vals, mod))
        finally:
            del self.writes[w0:]
            self.st.restore(cur)
        for f, r, g in todo:
            if f == '$containers':
                self.oblige('frame', 'a callee may change the contents of any pre-existing container ($containers), which '
                                     'this contract does not list', z3.BoolVal('$containers' in ct.modifies), fprops)
                continue
            if f.startswith('*.'):
                self.oblige('frame', f'a callee may assign attribute {f[2:]} of any object ({f}), which this contract '
                                     f'does not list', z3.BoolVal(f in ct.modifies), fprops)
                continue
            if ('*.' + f) in ct.modifies:
                continue                    # wildcard entry: attribute f of any object
            opts = [r >= smt.FRESH_BASE]
            if '$containers' in ct.modifies and f in ('$seq', '$dict'):
                continue
            for kind, ar, attr, ok in allowed:
                if (kind == 'attr' and f == attr) or (kind == 'seq' and f == '$seq') or \
                        (kind == 'dict' and f == '$dict') or (kind == 'contents' and f in ('$seq', '$dict')):
                    opts.append(z3.And(ok, r == ar))
            what = {'$seq': 'the items of', '$dict': 'the entries of'}.get(f, f'attribute {f} of')
            self.oblige('frame', f'writes {what} an object that is neither allocated by this call nor listed in '
                                 f'modifies={list(ct.modifies)}',
                        z3.Or(*opts) if g is None else z3.Implies(g, z3.Or(*opts)),
                        tuple(dict.fromkeys(tuple(ct.props) + tuple(ct.clause_props.get('modifies', ())))),
                        info={'write': f})
