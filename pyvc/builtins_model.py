"""
Builtin classes known to the engine (class objects only; behaviour lives in engine intrinsics).
"""
from __future__ import annotations

from typing import Dict, Optional

from .index import ClassInfo

_B: Dict[str, ClassInfo] = {}


def _mk(name: str, *bases: str) -> ClassInfo:
    c = ClassInfo(qualname=f'builtins:{name}', name=name, node=None, module=None, builtin=True)
    c.bases = [_B[b] for b in bases]
    _B[name] = c
    return c


_mk('object')
for _n in ('type', 'NoneType', 'int', 'float', 'str', 'dict', 'list', 'tuple', 'set', 'frozenset', 'function',
           'bytes', 'generator', 'coroutine', 'module', 'SimpleNamespace', 'partial', 'defaultdict_', 'UUID',
           'Signature', 'BoundArguments', 'Parameter', 'MagicMock', 'iterator'):
    _mk(_n, 'object')
_mk('bool', 'int')
_mk('defaultdict', 'dict')
_mk('BaseException', 'object')
_mk('Exception', 'BaseException')
_mk('KeyboardInterrupt', 'BaseException')
_mk('SystemExit', 'BaseException')
_mk('GeneratorExit', 'BaseException')
_mk('CancelledError', 'BaseException')
for _n, _b in (
    ('ArithmeticError', 'Exception'), ('ZeroDivisionError', 'ArithmeticError'), ('OverflowError', 'ArithmeticError'),
    ('AssertionError', 'Exception'), ('AttributeError', 'Exception'), ('LookupError', 'Exception'),
    ('KeyError', 'LookupError'), ('IndexError', 'LookupError'), ('TypeError', 'Exception'),
    ('ValueError', 'Exception'), ('JSONDecodeError', 'ValueError'), ('UnicodeError', 'ValueError'),
    ('UnicodeDecodeError', 'UnicodeError'), ('RuntimeError', 'Exception'), ('NotImplementedError', 'RuntimeError'),
    ('RecursionError', 'RuntimeError'), ('StopIteration', 'Exception'), ('StopAsyncIteration', 'Exception'),
    ('OSError', 'Exception'), ('ConnectionError', 'OSError'), ('ConnectionRefusedError', 'ConnectionError'),
    ('TimeoutError', 'OSError'), ('NameError', 'Exception'), ('MemoryError', 'Exception'),
    # synthetic classes standing for arbitrary user-defined classes (open class universe)
    ('UserException', 'Exception'),               # any Exception subclass unknown to the library
    ('UserBaseException', 'BaseException'),       # e.g. cancellation-like
    ('HTTPException', 'Exception'),
    ('PydanticValidationError', 'ValueError'),
    ('JsonSchemaValidationError', 'Exception'),
):
    _mk(_n, _b)
_mk('HTTPUnsupportedMediaType', 'HTTPException')
_mk('HTTPBadRequest', 'HTTPException')
_mk('UserObject', 'object')          # opaque user object (context, tracer, ...)
_mk('UserCallable', 'object')        # abstract callable (user method, middleware, handler, transport)
# kinds of abstract user callables / objects; their assumed behaviour is stated in contracts/oracles.py
for _n in ('UserMethod', 'UserMiddleware', 'UserErrorHandler', 'UserTransport', 'UserJitter', 'UserCallback',
           'UserExcludeFn', 'UserIdGen', 'UserLoader', 'UserDumper', 'UserValidator', 'UserStatusFn', 'UserMock', 'UserMockCallback'):
    _mk(_n, 'UserCallable')
for _n in ('UserTracer', 'UserContext', 'UserView', 'UserIdIter', 'ExtHttpRequest', 'ExtHttpResponse', 'ExtWsgiEnviron',
           'UserSchemaExtractor', 'UserMockModule', 'UserPatcher', 'UserClientObject'):
    _mk(_n, 'UserObject')


def builtin_class(name: str) -> Optional[ClassInfo]:
    return _B.get(name)


def all_builtin_classes():
    return list(_B.values())
