"""Intrinsics: builtin functions, methods of builtin types, a few stdlib functions.

Each intrinsic states its assumed semantics in its docstring; the list is reported as part of
the trusted base (A-engine)."""
from __future__ import annotations

import ast
from typing import Any, Dict, List, Optional, Tuple

import z3

from . import smt
from .smt import Val
from .core import (BoundBuiltin, BoundMethod, Builtin, Closure, ExtModule, ExtObject, Frame, GenObj, Infeasible,
                   Partial, PyRaise, ReturnSig, Unsupported)
from .index import ClassInfo, FuncInfo
from .builtins_model import builtin_class


class BuiltinsMixin:
    # ==================================================================================== iteration helpers
    def iter_items(self, v, node=None) -> Optional[List[Any]]:
        """elements in iteration order if the length is concrete on this path, else None"""
        so = self.static_of(v)
        if isinstance(so, GenObj):
            if so.kind == 'items':
                return so.payload
            return None
        if so is not None:
            return None
        k = self.kind_of(v)
        if k != 'ref':
            return None
        c = self.class_of(v)
        if c is None:
            return None
        if c.builtin and c.name in ('list', 'tuple'):
            return self.seq_items(self.get_seq(v))
        if c.builtin and c.name in ('dict', 'defaultdict', 'set', 'frozenset'):
            ks = self.concrete_keys(v)
            return ks
        return None

    def concrete_keys(self, d) -> Optional[List[Any]]:
        """keys of a dict built on this path from a constant-array base (insertion order)"""
        arr = smt.simp(z3.Select(self.st.dct, Val.r(d)))
        keys: List[Any] = []
        cur = arr
        chain = []
        while z3.is_app(cur) and cur.decl().kind() == z3.Z3_OP_STORE:
            chain.append((cur.arg(1), cur.arg(2)))
            cur = cur.arg(0)
        if not (z3.is_app(cur) and cur.decl().kind() == z3.Z3_OP_CONST_ARRAY):
            return None
        seen = []
        for k, v in reversed(chain):
            if smt.tag_of(k) is None:
                return None
            present = [s for s in seen if s[0].eq(k)]
            if smt.tag_of(v) == 'absent':
                seen = [s for s in seen if not s[0].eq(k)]
            elif smt.tag_of(v) is None and not z3.is_false(smt.simp(v == smt.ABSENT)):
                return None
            elif not present:
                seen.append((k, v))
        return [k for k, _ in seen]

    def to_seq_val(self, v, node=None):
        """materialise an iterable as a tuple/list Val (iteration order)"""
        v = self.resolve_ite(v)
        so = self.static_of(v)
        if isinstance(so, GenObj):
            if so.kind == 'items':
                return self.mk_tuple(so.payload)
            if so.kind == 'seqval':
                return so.payload
            if so.kind == 'dictvalues':
                return self.dict_values_seq(so.payload)
            self.unsupported(f'materialising generator {so.kind}', node)
        k = self.kind_of(v, force=True)
        if k != 'ref':
            self.raise_new('TypeError', smt.mk_str('object is not iterable'))
        c = self.require_class(v, 'iterable')
        if c.builtin and c.name in ('list', 'tuple'):
            return v
        if c.builtin and c.name == 'iterator':
            src = self.read_data_attr(v, c, '$src')
            p0 = smt.int_of(self.read_data_attr(v, c, '$pos'))
            if z3.is_int_value(smt.simp(p0)) and smt.simp(p0).as_long() == 0:
                return src
            s0 = self.get_seq(src)
            t = self.alloc(builtin_class('tuple'))
            self.set_seq(t, smt.simp(z3.Extract(s0, p0, z3.Length(s0) - p0)))
            return t
        if c.builtin and c.name in ('dict', 'defaultdict', 'set', 'frozenset'):
            ks = self.concrete_keys(v)
            if ks is not None:
                return self.mk_tuple(ks)
            return self.dict_keys_seq(v)
        lk = c.lookup('__iter__') if not c.builtin else None
        if lk and lk[0] == 'method':
            return self.to_seq_val(self.call_function(lk[1], [v], {}), node)
        self.unsupported(f'iteration over {c.name}', node)

    def dict_keys_seq(self, d):
        """keys of a symbolic dict in its (arbitrary but fixed) iteration order: a fresh sequence of
        length len(d); membership facts are instantiated where elements are read."""
        ck = ('keys', smt.simp(Val.r(d)).get_id(), self.dict_arr(d).get_id())
        if ck in self.global_cache:
            return self.global_cache[ck]
        t = self.alloc(builtin_class('tuple'))
        s = self.fresh('keys', smt.SeqV)
        self._add_axiom(z3.Length(s) == z3.Select(self.st.dlen, Val.r(d)))
        self.set_seq(t, s)
        self.keyseq_of = getattr(self, 'keyseq_of', {})
        self.keyseq_of[s.get_id()] = d
        self.global_cache[ck] = t
        arr = self.dict_arr(d)

        def inst(i):
            # every position of the key sequence holds a key that is present
            k = smt.elem_at(s, i)
            self._add_axiom(z3.Implies(z3.And(i >= 0, i < z3.Length(s)),
                                       z3.And(k != smt.ABSENT, z3.Select(arr, smt.simp(smt.key_of(k))) != smt.ABSENT)))
        self.add_qfact(s, 'dictkeys', inst)
        # ... and every present key sits at some position (Skolem position of the key)
        pos = z3.Function(f'keypos_{self.fresh_counter}_{len(self.keyseq_of)}', Val, smt.I)
        self.keypos_fn = getattr(self, 'keypos_fn', {})
        self.keypos_fn[s.get_id()] = pos
        base = arr
        while z3.is_app(base) and base.decl().kind() == z3.Z3_OP_STORE:
            base = base.arg(0)

        def present(kk):
            if getattr(self, '_in_present', False):
                return                      # keys derived from a Skolem position: no new positions (terminates)
            self._in_present = True
            try:
                present_(kk)
            finally:
                self._in_present = False

        def present_(kk):
            p = pos(kk)
            self._add_axiom(z3.Implies(z3.Select(arr, kk) != smt.ABSENT,
                                       z3.And(p >= 0, p < z3.Length(s), smt.key_of(smt.elem_at(s, p)) == kk)))
            self.note_index(s, smt.simp(p))
        if base.eq(arr):
            prev = self.base_facts.get(base.get_id())

            def both(kk, prev=prev):
                if prev is not None:
                    prev(kk)
                present(kk)
            self.base_facts[base.get_id()] = both
        return t

    def dict_values_seq(self, d):
        """values of a symbolic dict in iteration order: W[i] = d[keys[i]]"""
        ck = ('values', smt.simp(Val.r(d)).get_id(), self.dict_arr(d).get_id())
        if ck in self.global_cache:
            return self.global_cache[ck]
        kt = self.dict_keys_seq(d)
        ks = self.get_seq(kt)
        arr = self.dict_arr(d)
        W = self.fresh('values', smt.SeqV)
        self._add_axiom(z3.Length(W) == z3.Length(ks))
        out = self.alloc(builtin_class('tuple'))
        self.set_seq(out, W)

        def inst(i):
            inr = z3.And(i >= 0, i < z3.Length(W))
            if z3.is_false(smt.simp(inr)):
                return
            k = self.elem(ks, i)
            kk = smt.simp(smt.key_of(k))
            v = z3.Select(arr, kk)
            self._add_axiom(z3.Implies(inr, z3.And(smt.elem_at(W, i) == v, v != smt.ABSENT)))
            if self.merged_dicts or self.base_facts:
                self.merged_member_fact(arr, kk)
        self.link_seqs(ks, W)
        self.add_qfact(W, 'dictvalues', inst)
        self.global_cache[ck] = out
        return out

    # ==================================================================================== dict / set helpers
    def dict_copy(self, d):
        c = self.class_of(d) or builtin_class('dict')
        n = self.alloc(builtin_class('dict') if c.name not in ('set', 'frozenset') else c)
        self.st.dct = z3.Store(self.st.dct, smt.simp(Val.r(n)), z3.Select(self.st.dct, Val.r(d)))
        self.st.dlen = z3.Store(self.st.dlen, smt.simp(Val.r(n)), z3.Select(self.st.dlen, Val.r(d)))
        return n

    def merge_dicts(self, a, b):
        """{**a, **b}: a fresh dict whose members are defined pointwise (b overrides a); the pointwise facts are
        instantiated where members are read (no lambda / quantifier reaches the solver); the length is bounded"""
        n = self.alloc(builtin_class('dict'))
        arr = self.fresh('merged', smt.DictV)
        self.st.dct = z3.Store(self.st.dct, smt.simp(Val.r(n)), arr)
        ln = self.fresh('mlen', smt.I)
        la, lb = z3.Select(self.st.dlen, Val.r(a)), z3.Select(self.st.dlen, Val.r(b))
        self._add_axiom(z3.And(ln >= la, ln >= lb, ln <= la + lb, la >= 0, lb >= 0))
        self.st.dlen = z3.Store(self.st.dlen, smt.simp(Val.r(n)), ln)
        self.merged_dicts[arr.get_id()] = (arr, self.dict_arr(a), self.dict_arr(b))
        return n

    def merged_member_fact(self, arr, kk) -> None:
        """walk down a store chain to a merged base array and instantiate its pointwise definition at key kk"""
        cur = arr
        for _ in range(64):
            if z3.is_app(cur) and cur.decl().kind() == z3.Z3_OP_STORE:
                cur = cur.arg(0)
                continue
            break
        bf = self.base_facts.get(cur.get_id())
        if bf is not None:
            bf(kk)
        ent = self.merged_dicts.get(cur.get_id())
        if ent is None:
            return
        base, aa, bb = ent
        self._add_axiom(z3.Select(base, kk) == z3.If(z3.Select(bb, kk) == smt.ABSENT, z3.Select(aa, kk),
                                                      z3.Select(bb, kk)))
        self.merged_member_fact(smt.simp(aa), kk)
        self.merged_member_fact(smt.simp(bb), kk)

    def dict_update_from(self, d, src, node=None) -> None:
        ks = self.concrete_keys(src) if self.class_of(src) is not None else None
        if ks is not None:
            for k in ks:
                self.dict_set(d, k, self.dict_get(src, k))
            return
        m = self.merge_dicts(d, src)
        r = Val.r(d)
        self.st.dct = z3.Store(self.st.dct, r, z3.Select(self.st.dct, Val.r(m)))
        self.st.dlen = z3.Store(self.st.dlen, r, z3.Select(self.st.dlen, Val.r(m)))
        self.writes.append(('$dict', r, ''))

    def mk_set(self, items: List[Any]):
        s = self.alloc(builtin_class('set'))
        r = Val.r(s)
        self.st.dct = z3.Store(self.st.dct, r, z3.K(Val, smt.ABSENT))
        self.st.dlen = z3.Store(self.st.dlen, r, z3.IntVal(0))
        for it in items:
            self.dict_set(s, it, smt.TRUE)
        return s

    def check_hashable(self, k) -> None:
        kk = self.kind_of(k)
        if kk == 'ref':
            c = self.class_of(k)
            if c is not None and c.builtin and c.name in ('list', 'dict', 'set'):
                self.raise_new('TypeError', smt.mk_str(f'unhashable type: {c.name}'))

    # ==================================================================================== builtin functions
    def builtin_call(self, name: str, args, kwargs, star=None, dstar=None, node=None):
        h = getattr(self, 'bi_' + name.replace('.', '_'), None)
        if h is None:
            ac = getattr(self, 'assumed_call', None)
            if ac is not None:
                r = ac(name, args, kwargs, star, dstar, node)
                if r is not NotImplemented:
                    return r
            self.unsupported(f'builtin / external function {name}', node)
        if star is not None:
            its = self.seq_items(self.get_seq(star))
            if its is None:
                if name in ('asyncio.gather', 'itertools.chain', 'it.chain'):
                    return h(args, kwargs, star=star)
                self.unsupported(f'symbolic *args to builtin {name}', node)
            args = list(args) + its
        if dstar is not None:
            if name in ('functools.partial', 'ft.partial') or getattr(h, 'takes_dstar', False):
                return h(args, kwargs, dstar=dstar)
            ks = self.concrete_keys(dstar)
            if ks is None:
                self.unsupported(f'symbolic **kwargs to builtin {name}', node)
            kwargs = dict(kwargs)
            for k in ks:
                kwargs[smt.simp(Val.s(k)).as_string()] = self.dict_get(dstar, k)
        return h(args, kwargs)

    def bi_len(self, args, kwargs):
        v = args[0]
        k = self.kind_of(v, force=True)
        if k == 'str':
            return smt.simp(Val.int(z3.Length(Val.s(v))))
        if k != 'ref':
            self.raise_new('TypeError', smt.mk_str(f"object of type '{k}' has no len()"))
        c = self.require_class(v, 'len() argument')
        r = Val.r(v)
        if c.builtin and c.name in ('list', 'tuple'):
            return smt.simp(Val.int(z3.Length(z3.Select(self.st.seq, r))))
        if c.builtin and c.name in ('dict', 'defaultdict', 'set', 'frozenset'):
            self._add_axiom(z3.Select(self.st.dlen, r) >= 0)
            return smt.simp(Val.int(z3.Select(self.st.dlen, r)))
        lk = c.lookup('__len__') if not c.builtin else None
        if lk and lk[0] == 'method':
            return self.call_function(lk[1], [v], {})
        self.raise_new('TypeError', smt.mk_str(f"object of type '{c.name}' has no len()"))

    def bi_bool(self, args, kwargs):
        if not args:
            return smt.FALSE
        return self.to_val_bool(self.truthy(args[0]))

    def bi_str(self, args, kwargs):
        if not args:
            return smt.mk_str('')
        v = args[0]
        c = self.class_of(v)
        if c is not None and not c.builtin:
            lk = c.lookup('__str__')
            if lk and lk[0] == 'method':
                return smt.simp(Val.str(smt.pystr(v)))
        return smt.simp(Val.str(self.str_of(v)))

    def bi_repr(self, args, kwargs):
        return smt.simp(Val.str(smt.pyrepr(args[0])))

    def bi_tuple(self, args, kwargs):
        if not args:
            return self.mk_tuple([])
        sv = self.to_seq_val(args[0])
        t = self.alloc(builtin_class('tuple'))
        self.set_seq(t, self.get_seq(sv))
        return t

    def bi_list(self, args, kwargs):
        if not args:
            return self.mk_list([])
        sv = self.to_seq_val(args[0])
        t = self.alloc(builtin_class('list'))
        self.set_seq(t, self.get_seq(sv))
        return t

    def bi_dict(self, args, kwargs):
        d = self.mk_dict([])
        if args:
            self.dict_update_from(d, args[0])
        for k, v in kwargs.items():
            self.dict_set(d, smt.mk_str(k), v)
        return d

    def bi_set(self, args, kwargs):
        if not args:
            return self.mk_set([])
        items = self.iter_items(args[0])
        if items is None:
            self.unsupported('set() of symbolic iterable')
        return self.mk_set(items)

    def bi_type(self, args, kwargs):
        v = args[0]
        so = self.static_of(v)
        if isinstance(so, ClassInfo):
            mc = self.metaclass_of(so)
            return smt.mk_ref((mc or builtin_class('type')).cid)
        co = self.classobj_bound(v)
        if co is not None:
            return smt.mk_ref((self.metaclass_of(co) or builtin_class('type')).cid)
        k = self.kind_of(v, force=True)
        if k == 'ref':
            res = smt.simp(Val.ref(smt.cls_of(Val.r(v))))
            c = self.class_of(v)
            if c is not None and smt.static_id(res) is None:
                self.hint_classobj[res.get_id()] = c        # the class object of an instance of (a subclass of) c
            return res
        return smt.mk_ref(builtin_class({'none': 'NoneType', 'bool': 'bool', 'int': 'int', 'flt': 'float',
                                         'str': 'str'}[k]).cid)

    def bi_callable(self, args, kwargs):
        v = args[0]
        so = self.static_of(v)
        if so is not None:
            return smt.mk_bool(isinstance(so, (Closure, BoundMethod, ClassInfo, Builtin, BoundBuiltin, Partial)))
        k = self.kind_of(v, force=True)
        if k != 'ref':
            return smt.FALSE
        c = self.require_class(v, 'callable() argument')
        if c.builtin:
            return smt.mk_bool(c.name in ('UserCallable', 'partial', 'function'))
        return smt.mk_bool(c.lookup('__call__') is not None)

    def bi_getattr(self, args, kwargs):
        name = smt.const_str(args[1])
        if name is None:
            self.unsupported('getattr with symbolic name')
        if len(args) < 3:
            return self.get_attr(args[0], name)
        try:
            return self.get_attr(args[0], name)
        except PyRaise as pr:
            if z3.is_true(smt.simp(self.isinstance_term(pr.exc, smt.mk_ref(builtin_class('AttributeError').cid)))):
                return args[2]
            raise

    def bi_hasattr(self, args, kwargs):
        name = smt.const_str(args[1])
        if name is None:
            self.unsupported('hasattr with symbolic name')
        try:
            self.get_attr(args[0], name)
            return smt.TRUE
        except PyRaise as pr:
            if z3.is_true(smt.simp(self.isinstance_term(pr.exc, smt.mk_ref(builtin_class('AttributeError').cid)))):
                return smt.FALSE
            raise

    def bi_setattr(self, args, kwargs):
        name = smt.const_str(args[1])
        if name is None:
            self.unsupported('setattr with symbolic name')
        self.set_attr(args[0], name, args[2])
        return smt.NONE

    def bi_issubclass(self, args, kwargs):
        cv, kv = args
        K = self.static_of(kv)
        C = self.static_of(cv)
        if isinstance(C, ClassInfo) and isinstance(K, ClassInfo):
            return smt.mk_bool(C.is_subclass(K))
        if isinstance(K, ClassInfo):
            # a class object that derives from K (open universe, with the facts up K's mro)
            return self.to_val_bool(smt.simp(self.type_formula(cv, f'type<={K.qualname if not K.builtin else K.name}')))
        self.unsupported('issubclass with dynamic class')

    def bi_id(self, args, kwargs):
        return smt.simp(Val.int(Val.r(args[0])))

    def bi_min(self, args, kwargs):
        a, b = args
        return smt.simp(z3.If(self.compare(ast.Lt(), b, a), b, a))

    def bi_max(self, args, kwargs):
        a, b = args
        return smt.simp(z3.If(self.compare(ast.Gt(), b, a), b, a))

    def bi_print(self, args, kwargs):
        return smt.NONE

    def bi_all(self, args, kwargs):
        items = self.iter_items(args[0])
        if items is None:
            self.unsupported('all() over symbolic iterable')
        for it in items:
            if not self.branch(self.truthy(it)):
                return smt.FALSE
        return smt.TRUE

    def bi_any(self, args, kwargs):
        items = self.iter_items(args[0])
        if items is None:
            self.unsupported('any() over symbolic iterable')
        for it in items:
            if self.branch(self.truthy(it)):
                return smt.TRUE
        return smt.FALSE

    def bi_iter(self, args, kwargs):
        sv = self.to_seq_val(args[0])
        it = self.alloc(builtin_class('iterator'))
        self.set_attr_raw(it, '$src', sv)
        self.set_attr_raw(it, '$pos', smt.mk_int(0))
        return it

    def bi_next(self, args, kwargs):
        it = args[0]
        so = self.static_of(it)
        if isinstance(so, GenObj):
            h = getattr(self, 'gen_next_hook', None)
            if h is None:
                self.unsupported(f'next() on generator {so.kind}')
            return h(it, so, args[1:] )
        c = self.require_class(it, 'next() argument')
        if c.builtin and c.name == 'iterator':
            src = self.read_data_attr(it, c, '$src')
            pos = smt.int_of(self.read_data_attr(it, c, '$pos'))
            s = self.get_seq(src)
            if self.branch(pos >= z3.Length(s)):
                if len(args) > 1:
                    return args[1]
                self.raise_new('StopIteration')
            v = self.elem(s, pos)
            self.set_attr_raw(it, '$pos', smt.simp(Val.int(pos + 1)))
            return v
        h = getattr(self, 'gen_next_hook', None)
        if h is not None:
            return h(it, None, args[1:])
        self.unsupported(f'next() on {c.name}')

    def bi_reversed(self, args, kwargs):
        items = self.iter_items(args[0])
        if items is not None:
            return self.static_val(GenObj('items', list(reversed(items))))
        return self.static_val(GenObj('reversed', args[0]))

    def bi_enumerate(self, args, kwargs):
        items = self.iter_items(args[0])
        if items is None:
            self.unsupported('enumerate over symbolic iterable')
        return self.static_val(GenObj('items', [self.mk_tuple([smt.mk_int(i), x]) for i, x in enumerate(items)]))

    def bi_zip(self, args, kwargs):
        cols = [self.iter_items(a) for a in args]
        if any(c is None for c in cols):
            self.unsupported('zip over symbolic iterable')
        n = min(len(c) for c in cols) if cols else 0
        return self.static_val(GenObj('items', [self.mk_tuple([c[i] for c in cols]) for i in range(n)]))

    def bi_range(self, args, kwargs):
        vals = [smt.const_int(a) for a in args]
        if any(v is None for v in vals):
            return self.static_val(GenObj('range', list(args)))
        return self.static_val(GenObj('items', [smt.mk_int(i) for i in range(*vals)]))

    def bi_filter(self, args, kwargs):
        f, xs = args
        items = self.iter_items(xs)
        if items is None:
            self.unsupported('filter over symbolic iterable')
        out = []
        for it in items:
            keep = self.truthy(it) if smt.tag_of(f) == 'none' else self.truthy(self.call(f, [it], {}))
            if self.branch(keep):
                out.append(it)
        return self.static_val(GenObj('items', out))

    def bi_map(self, args, kwargs):
        f, xs = args
        items = self.iter_items(xs)
        if items is None:
            return self.static_val(GenObj('map', (f, xs)))
        return self.static_val(GenObj('items', [self.call(f, [it], {}) for it in items]))

    def bi_sorted(self, args, kwargs):
        self.unsupported('sorted()')

    def bi_dir(self, args, kwargs):
        self.unsupported('dir()')

    # ---- stdlib
    def bi_logging_getLogger(self, args, kwargs):
        return self.static_val(ExtObject('logger'), key='ext:logger')

    def bi_functools_partial(self, args, kwargs, dstar=None):
        return self.static_val(Partial(args[0], list(args[1:]), dict(kwargs), dstar))

    def bi_functools_wraps(self, args, kwargs):
        return self.static_val(Builtin('identity'), key='builtin:identity')

    def bi_identity(self, args, kwargs):
        return args[0]

    def bi_itertools_chain(self, args, kwargs, star=None):
        cols = [self.iter_items(a) for a in args]
        if star is None and all(c is not None for c in cols):
            return self.static_val(GenObj('items', [x for c in cols for x in c]))
        # symbolic: concatenation of the materialised sequences
        t = self.alloc(builtin_class('tuple'))
        s = z3.Empty(smt.SeqV)
        ets = set()
        for a in args:
            av = self.to_seq_val(a)
            part = self.get_seq(av)
            if z3.is_int_value(smt.simp(z3.Length(part))) and smt.simp(z3.Length(part)).as_long() == 0:
                continue
            ets.add(self.seq_elem_type.get(smt.simp(part).get_id())
                    or self.container_elem_type.get(smt.simp(av).get_id()))
            s = z3.Concat(s, part)
        if star is not None:
            self.unsupported('itertools.chain(*symbolic)')
        s = smt.simp(s)
        self.set_seq(t, s)
        if len(ets) == 1 and None not in ets:
            self.seq_elem_type[s.get_id()] = next(iter(ets))
        return t

    def bi_itertools_count(self, args, kwargs):
        start = kwargs.get('start', args[0] if args else smt.mk_int(0))
        step = kwargs.get('step', args[1] if len(args) > 1 else smt.mk_int(1))
        return self.static_val(GenObj('count', (start, step)))

    def bi_asyncio_gather(self, args, kwargs, star=None):
        """assumed contract of asyncio.gather (DESIGN 3.5): every awaitable is awaited exactly once and the
        results come back in ARGUMENT order (under await-erasure the awaitables were already evaluated, in
        argument order, when the argument list was built)"""
        out = self.alloc(builtin_class('list'))
        s = self.seq_of_items(list(args))
        if star is not None:
            s = z3.Concat(s, self.get_seq(star)) if args else self.get_seq(star)
        self.set_seq(out, smt.simp(s))
        self.ghost_note('gather', out)
        return out

    def ghost_note(self, what: str, v) -> None:
        pass

    def bi_typing_TypeVar(self, args, kwargs):
        return self.static_val(ExtObject('TypeVar'))

    def bi_asyncio_iscoroutinefunction(self, args, kwargs):
        so = self.static_of(args[0])
        if isinstance(so, Closure):
            return smt.mk_bool(so.func.is_async)
        self.unsupported('iscoroutinefunction on dynamic value')

    # ==================================================================================== methods of builtin types
    def bound_builtin_call(self, name: str, recv, args, kwargs, star=None, dstar=None, node=None):
        if name.startswith('defaultdict.'):
            h = getattr(self, 'bb_' + name.replace('.', '_'), None)
            if h is None:
                name = 'dict.' + name.split('.', 1)[1]
        h = getattr(self, 'bb_' + name.replace('.', '_'), None)
        if h is None:
            ac = getattr(self, 'assumed_method', None)
            if ac is not None:
                r = ac(name, recv, args, kwargs, star, dstar, node)
                if r is not NotImplemented:
                    return r
            self.unsupported(f'method {name}', node)
        if getattr(h, 'takes_star', False):
            return h(recv, args, kwargs, star, dstar)
        if getattr(h, 'takes_star', False):
            return h(recv, args, kwargs, star, dstar)
        if star is not None:
            its = self.seq_items(self.get_seq(star))
            if its is None:
                self.unsupported(f'symbolic *args to {name}', node)
            args = list(args) + its
        if dstar is not None:
            if name == 'dict.update':
                self.dict_update_from(recv, dstar)
                if not args and not kwargs:
                    return smt.NONE
            else:
                self.unsupported(f'symbolic **kwargs to {name}', node)
        return h(recv, args, kwargs)

    # ---- dict
    def bb_dict_get(self, d, args, kwargs):
        self.check_hashable(args[0])
        v = self.dict_get(d, args[0])
        default = args[1] if len(args) > 1 else smt.NONE
        return smt.simp(z3.If(v == smt.ABSENT, default, v))

    def bb_dict_update(self, d, args, kwargs):
        if args:
            self.dict_update_from(d, args[0])
        for k, v in kwargs.items():
            self.dict_set(d, smt.mk_str(k), v)
        return smt.NONE

    def bb_dict_pop(self, d, args, kwargs):
        v = self.dict_get(d, args[0])
        if self.branch(v == smt.ABSENT):
            if len(args) > 1:
                return args[1]
            self.raise_new('KeyError', args[0])
        self.dict_del(d, args[0])
        return v

    def bb_dict_setdefault(self, d, args, kwargs):
        v = self.dict_get(d, args[0])
        if self.branch(v == smt.ABSENT):
            default = args[1] if len(args) > 1 else smt.NONE
            self.dict_set(d, args[0], default)
            return default
        return v

    # ---- collections.defaultdict(factory): a dict whose missing keys are created by calling the factory
    def bi_defaultdict(self, args, kwargs):
        d = self.alloc(builtin_class('defaultdict'))
        r = smt.simp(Val.r(d))
        self.st.dct = z3.Store(self.st.dct, r, z3.K(Val, smt.ABSENT))
        self.st.dlen = z3.Store(self.st.dlen, r, z3.IntVal(0))
        self.set_attr_raw(d, '$factory', args[0] if args else smt.NONE)
        if len(args) > 1 or kwargs:
            self.unsupported('defaultdict with initial contents')
        return d

    def defaultdict_getitem(self, d, k, node=None):
        self.check_hashable(k)
        v = self.dict_get(d, k)
        if self.branch(v == smt.ABSENT):
            inner = self.ddict_factory.get(smt.simp(d).get_id())
            if inner is not None:
                nv = self.make_by_spec(inner)
            else:
                f = smt.simp(z3.Select(self.attr_array('$factory'), Val.r(d)))
                if smt.tag_of(f) == 'none':
                    self.raise_new('KeyError', k)
                nv = self.call(f, [], {})
            self.dict_set(d, k, nv)
            return nv
        return v

    def make_by_spec(self, spec: str):
        """what the (assumed) factory of a typed defaultdict field builds: an empty container of that spec"""
        if spec.startswith('ddict['):
            nv = self.bi_defaultdict([smt.NONE], {})
            self.ddict_factory[smt.simp(nv).get_id()] = spec[6:-1]
            self.container_elem_type[smt.simp(nv).get_id()] = spec[6:-1]
            return nv
        if spec.startswith('list'):
            return self.mk_list([])
        if spec.startswith('dict'):
            return self.mk_dict([])
        self.unsupported(f'defaultdict factory for {spec}')

    def bb_dict_copy(self, d, args, kwargs):
        return self.dict_copy(d)

    def bb_dict_clear(self, d, args, kwargs):
        r = Val.r(d)
        self.st.dct = z3.Store(self.st.dct, r, z3.K(Val, smt.ABSENT))
        self.st.dlen = z3.Store(self.st.dlen, r, z3.IntVal(0))
        self.writes.append(('$dict', r, ''))
        return smt.NONE

    def bb_dict_keys(self, d, args, kwargs):
        return self.to_seq_val(d)

    def bb_dict_values(self, d, args, kwargs):
        ks = self.concrete_keys(d)
        if ks is not None:
            return self.mk_tuple([self.dict_get(d, k) for k in ks])
        return self.static_val(GenObj('dictvalues', d))

    def bb_dict_items(self, d, args, kwargs):
        ks = self.concrete_keys(d)
        if ks is not None:
            return self.mk_tuple([self.mk_tuple([k, self.dict_get(d, k)]) for k in ks])
        return self.static_val(GenObj('dictitems', d))

    # ---- set (modelled as a dict key -> True)
    def bb_set_add(self, s, args, kwargs):
        self.check_hashable(args[0])
        self.dict_set(s, args[0], smt.TRUE)
        return smt.NONE

    def bb_set_copy(self, s, args, kwargs):
        n = self.alloc(builtin_class('set'))
        self.st.dct = z3.Store(self.st.dct, smt.simp(Val.r(n)), z3.Select(self.st.dct, Val.r(s)))
        self.st.dlen = z3.Store(self.st.dlen, smt.simp(Val.r(n)), z3.Select(self.st.dlen, Val.r(s)))
        return n

    def bb_set_discard(self, s, args, kwargs):
        self.dict_del(s, args[0])
        return smt.NONE

    # ---- list
    def bb_list_append(self, l, args, kwargs):
        self.set_seq(l, smt.simp(z3.Concat(self.get_seq(l), z3.Unit(args[0]))))
        return smt.NONE

    def bb_list_extend(self, l, args, kwargs):
        sv = self.to_seq_val(args[0])
        self.set_seq(l, smt.simp(z3.Concat(self.get_seq(l), self.get_seq(sv))))
        return smt.NONE

    def bb_list_pop(self, l, args, kwargs):
        s = self.get_seq(l)
        n = z3.Length(s)
        if self.branch(n == 0):
            self.raise_new('IndexError', smt.mk_str('pop from empty list'))
        if args:
            i = smt.const_int(args[0])
            if i != 0:
                self.unsupported('list.pop(i) with i != 0')
            v = self.elem(s, z3.IntVal(0))
            rest = smt.simp(z3.Extract(s, z3.IntVal(1), n - 1))
        else:
            v = self.elem(s, smt.simp(n - 1))
            rest = smt.simp(z3.Extract(s, z3.IntVal(0), n - 1))
        et = self.seq_elem_type.get(smt.simp(s).get_id())
        if et is not None:
            self.seq_elem_type[rest.get_id()] = et          # what is left holds elements of the same type
        self.set_seq(l, rest)
        self.bound_ref(v)
        return v

    def bb_list_copy(self, l, args, kwargs):
        n = self.alloc(builtin_class('list'))
        self.set_seq(n, self.get_seq(l))
        return n

    def bb_list_clear(self, l, args, kwargs):
        self.set_seq(l, z3.Empty(smt.SeqV))
        return smt.NONE

    # ---- str
    def bb_str_join(self, sep, args, kwargs):
        items = self.iter_items(args[0])
        if items is None:
            so = self.static_of(args[0])
            return smt.simp(Val.str(z3.Function('str_join', z3.StringSort(), smt.SeqV, z3.StringSort())(
                Val.s(sep), self.get_seq(self.to_seq_val(args[0])))))
        out = None
        for it in items:
            if self.kind_of(it, force=True) != 'str':
                self.raise_new('TypeError', smt.mk_str('sequence item: expected str instance'))
            out = Val.s(it) if out is None else z3.Concat(out, Val.s(sep), Val.s(it))
        return smt.simp(Val.str(out if out is not None else z3.StringVal('')))

    def bb_str_startswith(self, s, args, kwargs):
        return self.to_val_bool(z3.PrefixOf(Val.s(args[0]), Val.s(s)))

    def bb_str_endswith(self, s, args, kwargs):
        return self.to_val_bool(z3.SuffixOf(Val.s(args[0]), Val.s(s)))

    def bb_str_format(self, s, args, kwargs):
        r = self.fresh('fmt', z3.StringSort())
        return Val.str(r)

    def bb_str_lower(self, s, args, kwargs):
        return smt.simp(Val.str(smt.str_lower(Val.s(s))))

    def bb_json_JSONEncoder_default(self, enc, args, kwargs):
        """json.JSONEncoder.default(o): always raises TypeError (stdlib)"""
        self.raise_new('TypeError', smt.mk_str('Object is not JSON serializable'), origin='json.JSONEncoder.default')

    # ---- exceptions
    def bb_exc___init__(self, e, args, kwargs):
        self.set_attr_raw(e, 'args', self.mk_tuple(list(args)))
        return smt.NONE

    def bb_object___init__(self, o, args, kwargs):
        return smt.NONE

    def bb_exc_with_traceback(self, e, args, kwargs):
        return e
