"""Attribute access, calls, function invocation, class instantiation."""
from __future__ import annotations

import ast
from dataclasses import dataclass
from typing import Any, Dict, List, Optional, Tuple

import z3

from . import smt
from .smt import Val
from .core import (BoundBuiltin, BoundMethod, Builtin, Closure, ExtModule, ExtObject, Frame, GenObj, Infeasible,
                   Partial, PropertyObj, PyRaise, ReturnSig, Unsupported)
from .index import ClassInfo, FuncInfo, ModuleInfo, walk_local
from .builtins_model import builtin_class
from .engine import INLINE_DEPTH
from .engine_expr import BUILTIN_DECLARED

TRIVIAL_DECORATORS = ('property', 'classmethod', 'staticmethod', 'abc.abstractmethod', 'abstractmethod',
                      'ft.wraps', 'functools.wraps')


@dataclass(eq=False)
class SuperObj:
    obj: Any
    after: ClassInfo


class CallMixin:
    # ==================================================================================== declared attrs
    def declared_attrs(self, c: ClassInfo) -> set:
        if c.qualname in self._decl_cache:
            return self._decl_cache[c.qualname]
        out: set = set()
        for k in c.mro():
            out |= BUILTIN_DECLARED.get(k.name, set())
            for name, _ in k.dc_fields:
                out.add(name)
            init = k.methods.get('__init__')
            if init is not None:
                selfname = init.node.args.args[0].arg if init.node.args.args else 'self'
                for n in ast.walk(init.node):
                    tgts = []
                    if isinstance(n, ast.Assign):
                        tgts = n.targets
                    elif isinstance(n, ast.AnnAssign):
                        tgts = [n.target]
                    for t in tgts:
                        for tt in (t.elts if isinstance(t, ast.Tuple) else [t]):
                            if isinstance(tt, ast.Attribute) and isinstance(tt.value, ast.Name) and tt.value.id == selfname:
                                out.add(tt.attr)
        self._decl_cache[c.qualname] = out
        return out

    # ==================================================================================== attribute read
    def get_attr(self, obj, name: str, node=None):
        obj = self.resolve_ite(obj)
        so = self.static_of(obj)
        if so is not None:
            return self.static_get_attr(obj, so, name, node)
        co = self.classobj_bound(obj)
        if co is not None:
            lk = co.lookup(name)
            if lk is not None and lk[0] == 'attr':
                # class attribute of a class object known only up to a bound: subclasses may override it
                return self.symbolic_class_attr(Val.r(obj), co, name)
            return self.static_get_attr(obj, co, name, node)
        k = self.kind_of(obj, force=True)
        if k == 'str':
            return self.static_val(BoundBuiltin(f'str.{name}', obj))
        if k != 'ref':
            self.raise_new('AttributeError', smt.mk_str(f"'{k}' object has no attribute '{name}'"),
                           origin=f'attribute {name} of {k}')
        if self.classobj_cands and self.feasible_is_classobj(obj):
            # a class object known only through facts (e.g. an element of a list of error classes): find a bound the
            # path condition implies among the classes this path has compared class objects with
            for K in self.classobj_cands:
                if self.implied(z3.And(Val.is_ref(obj), Val.r(obj) < 0, self.sub_term(Val.r(obj), K))):
                    self.hint_classobj[smt.simp(obj).get_id()] = K
                    self.not_classobj.discard(smt.simp(obj).get_id())
                    return self.get_attr(obj, name, node)
        c = self.require_class(obj, f'receiver of .{name}')
        if not c.builtin and c.lookup(name) is None and name not in self.declared_attrs(c):
            for alt in self.hint_alt.get(smt.simp(obj).get_id(), []):
                if alt.lookup(name) is not None or name in self.declared_attrs(alt):
                    c = alt
                    break
        return self.instance_get_attr(obj, c, name, node)

    def bound_method_val(self, obj, target):
        """obj.method as a value: ONE value per (object, function) on a path - two reads of `self.m` compare equal
        (Python: `==` on bound methods; `is` on them is not used by the code under contract)"""
        q = target.func.qualname if isinstance(target, Closure) else getattr(target, 'qualname', str(id(target)))
        ck = ('bmv', smt.simp(obj).get_id(), q)
        if ck not in self.global_cache:
            self.global_cache[ck] = self.static_val(BoundMethod(obj, target))
        return self.global_cache[ck]

    def feasible_is_classobj(self, obj) -> bool:
        """cheap syntactic filter: obj is not already known to be an ordinary instance"""
        if self.class_of(obj) is not None:
            return False
        tid = smt.simp(obj).get_id()
        if tid in self.not_classobj:
            return False                # asked before on this path (a lost hint at worst)
        self.not_classobj.add(tid)
        sid = smt.static_id(obj)
        return sid is None

    def instance_get_attr(self, obj, c: ClassInfo, name: str, node=None):
        if name == '__class__':
            return smt.simp(Val.ref(smt.cls_of(Val.r(obj))))
        if c.builtin:
            if c.name in ('dict', 'defaultdict', 'list', 'tuple', 'set', 'frozenset', 'generator', 'iterator',
                          'Signature', 'BoundArguments', 'Parameter', 'MagicMock', 'partial'):
                h = getattr(self, f'attr_{c.name}_{name}', None)
                if h is not None:
                    return h(obj)
                return self.static_val(BoundBuiltin(f'{c.name}.{name}', obj))
            if c.is_subclass(builtin_class('HTTPException')) and name == 'get_response':
                return self.static_val(BoundBuiltin('httpexc.get_response', obj))
            if c.is_subclass(builtin_class('BaseException')) and name == 'with_traceback':
                return self.static_val(BoundBuiltin('exc.with_traceback', obj))
            om = getattr(self, 'oracle_methods', {}).get(c.name, {})
            if name in om:
                return self.static_val(BoundBuiltin(f'oracle.{c.name}.{name}', obj))
            return self.read_data_attr(obj, c, name, node)
        lk0 = c.lookup(name)
        if lk0 is not None and lk0[0] == 'method' and lk0[1].cls is not None and \
                any('abstractmethod' in ast.unparse(d) for d in lk0[1].decorators):
            om = getattr(self, 'oracle_methods', {}).get(lk0[1].cls.name, {})
            if name in om:
                # abstract in the declared class: whatever subclass implements it is user / backend code
                return self.static_val(BoundBuiltin(f'oracle.{lk0[1].cls.name}.{name}', obj))
        groups = self.member_groups(c, name)
        if len(groups) > 1:
            keys = list(groups)
            guards = []
            for key in keys:
                for kk in groups[key][1]:
                    self.use_class(kk)
                guards.append(z3.Or(*[smt.cls_of(Val.r(obj)) == kk.cid for kk in groups[key][1]]))
            key = keys[self.choose(guards)]
            if len(groups[key][1]) == 1:
                self.set_class(obj, groups[key][1][0], exact=True)
        else:
            key = next(iter(groups))
        lk = groups[key][0]
        if lk is not None and lk[0] == 'method':
            fi: FuncInfo = lk[1]
            if any('abstractmethod' in ast.unparse(d) for d in fi.decorators):
                # an abstract method implemented by user code (e.g. the transport): abstract callable
                om = getattr(self, 'oracle_methods', {}).get(fi.cls.name, {})
                if name in om:
                    return self.static_val(BoundBuiltin(f'oracle.{fi.cls.name}.{name}', obj))
                self.unsupported(f'call of abstract method {fi.qualname} without a user contract', node)
            if fi.kind == 'property':
                return self.call_function(fi, [obj], {})
            if fi.kind == 'classmethod':
                return self.static_val(BoundMethod(smt.simp(Val.ref(smt.cls_of(Val.r(obj)))), self.method_target(fi)))
            if fi.kind == 'staticmethod':
                return self.method_val(fi)
            return self.bound_method_val(obj, self.method_target(fi))
        if lk is not None and lk[0] == 'class':
            return smt.mk_ref(lk[1].cid)
        return self.read_data_attr(obj, c, name, node)

    def member_groups(self, c: ClassInfo, name: str):
        """group the known subclasses of c by what `name` resolves to in their mro"""
        groups: Dict[str, Tuple[Any, List[ClassInfo]]] = {}
        for k in self.subclasses.get(c.qualname, [c]):
            lk = k.lookup(name)
            if lk is None or lk[0] == 'attr':
                key = 'data'
                lk = None if lk is None else lk
                ent = None
            elif lk[0] == 'method':
                key, ent = 'm:' + lk[1].qualname, lk
            else:
                key, ent = 'c:' + lk[1].qualname, lk
            if key not in groups:
                groups[key] = (ent, [])
            groups[key][1].append(k)
        return groups

    def read_data_attr(self, obj, c: ClassInfo, name: str, node=None):
        r = smt.simp(Val.r(obj))
        arr = self.attr_array(name)
        if self.is_old(obj):
            arr = self.strip_fresh(arr)
        v = smt.simp(z3.Select(arr, r))
        self.attr_reads.append((name, r))
        t = smt.tag_of(v)
        declared = name in self.declared_attrs(c)
        ft_spec = self.field_type(c, name)
        if ft_spec is not None and t is None and (self.is_initial_attr_read(v) or smt.static_id(obj) is None):
            self.apply_field_type(v, ft_spec)
        if t is not None and t != 'absent':
            return v
        if t is None:
            self.bound_ref(v)
            if declared:
                # class invariant: objects that exist before the call were built by their __init__
                self._add_axiom(z3.Implies(r < smt.FRESH_BASE, v != smt.ABSENT))
                if self.is_old(obj):
                    return v            # a pre-existing object: the attribute is set (no solver call needed)
            elif not c.builtin and c.lookup(name) is not None and c.lookup(name)[0] == 'attr':
                # A-classes: class-level constants are not shadowed by instance attributes
                self._add_axiom(z3.Implies(r < smt.FRESH_BASE, v == smt.ABSENT))
            if self.implied(v != smt.ABSENT):
                return v
            if not self.branch(v == smt.ABSENT):
                return v
        # instance attribute not set: class attribute fallback
        fb = self.class_attr_fallback(obj, c, name)
        if fb is not None:
            return fb
        self.raise_new('AttributeError', smt.mk_str(f"no attribute '{name}'"), origin=f'attribute {name}')

    def field_type(self, c: ClassInfo, name: str):
        fts = getattr(self, 'field_types', None)
        if not fts:
            return None
        for k in c.mro():
            sp = fts.get((k.qualname, name))
            if sp is not None:
                return sp
        return None

    def is_initial_attr_read(self, v) -> bool:
        v = smt.simp(v)
        if not (z3.is_app(v) and v.decl().kind() == z3.Z3_OP_SELECT):
            return False
        a = v.arg(0)
        return z3.is_const(a) and a.decl().name().startswith('H_attr_')

    def apply_field_type(self, v, spec: str) -> None:
        """class invariant assumed on objects that exist on entry: 'dict[T]' / 'list[T]' / T; a suffix '@region' adds the
        separation invariant "containers held by fields of different regions are different objects" (one uninterpreted
        region tag per container, stated per read - no quantifier)"""
        if '@' in spec:
            spec, region = spec.rsplit('@', 1)
            import zlib
            tag = z3.Function('field_region', smt.I, smt.I)
            self._add_axiom(z3.Implies(v != smt.ABSENT, tag(Val.r(v)) == z3.IntVal(zlib.crc32(region.encode()) % 100003 + 1)))
        if spec.startswith('ddict['):
            # collections.defaultdict whose factory builds an empty container of the inner spec
            inner = spec[6:-1]
            self._add_axiom(z3.Implies(v != smt.ABSENT, self.type_formula(v, '=defaultdict')))
            self.container_elem_type[smt.simp(v).get_id()] = inner
            self.ddict_factory[smt.simp(v).get_id()] = inner
            return
        if spec.startswith('dict[') or spec.startswith('list['):
            kind, inner = spec[:4], spec[5:-1]
            self._add_axiom(z3.Implies(v != smt.ABSENT, self.type_formula(v, '=' + kind)))
            self.container_elem_type[smt.simp(v).get_id()] = inner
            if kind == 'list':
                self.seq_elem_type[self.get_seq(v).get_id()] = inner
                sq = smt.simp(z3.Select(self.strip_fresh(self.st.seq), Val.r(v)))
                self.seq_elem_type[sq.get_id()] = inner
        else:
            self._add_axiom(z3.Implies(v != smt.ABSENT, self.type_formula(v, spec)))

    def class_attr_fallback(self, obj, c: ClassInfo, name: str):
        subs = [k for k in self.subclasses.get(c.qualname, [c])]
        have = [(k, k.lookup(name)) for k in subs]
        have = [(k, lk) for k, lk in have if lk is not None and lk[0] == 'attr']
        if not have:
            return None
        for k, lk in have:
            if (lk[2].qualname, name) in getattr(self, 'class_attr_final', ()):
                # A-classes: this class-level constant is not overridden by subclasses
                return self.class_attr_val(lk[2], name, lk[1])
        exact = self.known_cls.get(smt.simp(obj).get_id())
        if exact is not None:
            lk = exact.lookup(name)
            if lk is None or lk[0] != 'attr':
                return None
            return self.class_attr_val(lk[2], name, lk[1])
        # symbolic class: uninterpreted class attribute with ground facts for the known classes
        f = z3.Function(f'classattr_{name}', smt.I, Val)
        for (oq, an), spec in getattr(self, 'class_attr_types', {}).items():
            if an == name and c.is_subclass(self.resolve_class(oq)):
                self.assume(self.type_formula(f(smt.cls_of(Val.r(obj))), spec))
        for k, lk in have:
            self.use_class(k)
            self._add_axiom(f(z3.IntVal(k.cid)) == self.class_attr_val(lk[2], name, lk[1]))
        return smt.simp(f(smt.cls_of(Val.r(obj))))

    def symbolic_class_attr(self, cid_term, c: ClassInfo, name: str):
        f = z3.Function(f'classattr_{name}', smt.I, Val)
        for (oq, an), spec in getattr(self, 'class_attr_types', {}).items():
            if an == name and c.is_subclass(self.resolve_class(oq)):
                self.assume(self.type_formula(f(cid_term), spec))
        for k in self.subclasses.get(c.qualname, [c]):
            lk = k.lookup(name)
            if lk is not None and lk[0] == 'attr':
                self.use_class(k)
                self._add_axiom(f(z3.IntVal(k.cid)) == self.class_attr_val(lk[2], name, lk[1]))
        return smt.simp(f(cid_term))

    def class_attr_val(self, owner: ClassInfo, name: str, expr: ast.expr):
        ck = ('classattr', owner.qualname, name)
        if ck in self.global_cache:
            return self.global_cache[ck]
        if isinstance(expr, (ast.Dict, ast.List, ast.Set)):
            # mutable class-level container: a process-global object with symbolic contents
            v = self.static_val(('global', owner.qualname, name), key=f'global:{owner.qualname}:{name}')
            kc = builtin_class({'Dict': 'dict', 'List': 'list', 'Set': 'set'}[type(expr).__name__])
            self.use_class(kc)
            self._add_axiom(smt.cls_of(smt.static_id(v)) == kc.cid)
            self.known_cls[smt.simp(v).get_id()] = kc
        else:
            fr = Frame(None, owner.module)
            fr.locals.update(self.class_body_names(owner))
            v = self.ev(expr, fr)
        self.global_cache[ck] = v
        return v

    def class_body_names(self, c: ClassInfo) -> Dict[str, Any]:
        return {}

    # ------------------------------------------------------------------ statics
    def static_get_attr(self, obj, so, name: str, node=None):
        if isinstance(so, ClassInfo):
            if name == '__name__':
                return smt.mk_str(so.name)
            if name == '__mro__':
                return self.mk_tuple([smt.mk_ref(k.cid) for k in so.mro()])
            lk = so.lookup(name)
            if lk is None:
                if so.builtin and so.name == 'dict' and name == 'fromkeys':
                    return self.static_val(Builtin('dict.fromkeys'), key='builtin:dict.fromkeys')
                # metaclass attribute (type(cls).__errors_mapping__ is reached via type(); cls.x also works)
                mc = self.metaclass_of(so)
                if mc is not None:
                    lk2 = mc.lookup(name)
                    if lk2 is not None and lk2[0] == 'attr':
                        return self.class_attr_val(lk2[2], name, lk2[1])
                self.raise_new('AttributeError', smt.mk_str(f"type object has no attribute '{name}'"))
            if lk[0] == 'method':
                fi = lk[1]
                if fi.kind == 'classmethod':
                    return self.static_val(BoundMethod(obj, self.method_target(fi)))
                if fi.kind == 'property':
                    return self.static_val(PropertyObj(fi))
                return self.method_val(fi)
            if lk[0] == 'class':
                return smt.mk_ref(lk[1].cid)
            return self.class_attr_val(lk[2], name, lk[1])
        if isinstance(so, ModuleInfo):
            v = self.module_global(so, name)
            if v is None:
                self.unsupported(f'module attribute {so.name}.{name}', node)
            return v
        if isinstance(so, ExtModule):
            return self.ext_attr(so.name, name)
        if isinstance(so, Closure):
            if name == '__name__':
                return smt.mk_str(so.func.name)
            return self.read_data_attr(obj, builtin_class('function'), name, node)
        if isinstance(so, BoundMethod):
            if name == '__name__':
                f = so.func.func if isinstance(so.func, Closure) else so.func
                return smt.mk_str(f.name)
            if name == '__self__':
                return so.recv
            if name == '__func__':
                return self.static_val(so.func) if isinstance(so.func, Closure) else self.method_val(so.func)
            self.unsupported(f'bound method attribute {name}', node)
        if isinstance(so, ExtObject):
            return self.static_val(ExtObject(f'{so.name}.{name}'))
        if isinstance(so, SuperObj):
            return self.super_get_attr(so, name, node)
        if isinstance(so, Builtin):
            return self.static_val(Builtin(f'{so.name}.{name}'), key=f'builtin:{so.name}.{name}')
        if isinstance(so, Partial):
            if name == 'func':
                return so.func
            if name == 'keywords':
                return self.mk_dict([(smt.mk_str(k), v) for k, v in so.kwargs.items()])
            if name == 'args':
                return self.mk_tuple(list(so.args))
        self.unsupported(f'attribute {name} of static {type(so).__name__}', node)

    def metaclass_of(self, c: ClassInfo) -> Optional[ClassInfo]:
        for k in c.mro():
            if k.metaclass_expr is not None:
                r = self.index.resolve_expr_static(k.module, k.metaclass_expr)
                if isinstance(r, ClassInfo):
                    return r
        return None

    def super_get_attr(self, so: SuperObj, name: str, node=None):
        c = self.class_of(so.obj)
        start = so.after
        base_cls = c if c is not None and not c.builtin else start
        mro = base_cls.mro()
        if start in mro:
            mro = mro[mro.index(start) + 1:]
        else:
            mro = start.mro()[1:]
        for k in mro:
            if name in k.methods:
                return self.static_val(BoundMethod(so.obj, self.method_target(k.methods[name])))
            if k.builtin and k.is_subclass(builtin_class('BaseException')) and name == '__init__':
                return self.static_val(BoundBuiltin('exc.__init__', so.obj))
            if k.builtin and k.name == 'object' and name == '__init__':
                return self.static_val(BoundBuiltin('object.__init__', so.obj))
        for k in [start] + start.mro():
            for eb in k.ext_bases:
                return self.static_val(BoundBuiltin(f'{eb}.{name}', so.obj))
        self.unsupported(f'super().{name}', node)

    def method_target(self, fi: FuncInfo):
        """what a (bound) method invokes: the raw function, or the result of its decorator chain"""
        if self.has_real_decorators(fi) and f'{fi.qualname}@stack' in self.contracts:
            # the decorated attribute as a whole is under an (assumed) contract of its own
            return FuncInfo(qualname=f'{fi.qualname}@stack', name=fi.name, node=fi.node, module=fi.module, cls=fi.cls,
                            kind=fi.kind, decorators=[])
        if self.has_real_decorators(fi):
            v = self.method_val(fi)
            so = self.static_of(v)
            if isinstance(so, Closure):
                return so
            self.unsupported(f'decorated method {fi.qualname} does not evaluate to a function')
        return fi

    def has_real_decorators(self, fi: FuncInfo) -> bool:
        for d in fi.decorators:
            txt = ast.unparse(d)
            base = txt.split('(')[0]
            if base in TRIVIAL_DECORATORS or base.endswith('.setter'):
                continue
            if base in ('ft.lru_cache', 'functools.lru_cache'):
                continue
            return True
        return False

    def method_val(self, fi: FuncInfo):
        if not self.has_real_decorators(fi):
            return self.func_val(fi)
        ck = ('decorated', fi.qualname)
        if ck in self.global_cache:
            return self.global_cache[ck]
        fr = Frame(None, fi.module)
        if fi.cls is not None:
            for n, m in fi.cls.methods.items():
                if not self.has_real_decorators(m):
                    fr.locals[n] = self.func_val(m)
        v = self.func_val(fi)
        for d in reversed(fi.decorators):
            txt = ast.unparse(d).split('(')[0]
            if txt in TRIVIAL_DECORATORS or txt in ('ft.lru_cache', 'functools.lru_cache'):
                continue
            dv = self.ev(d, fr)
            v = self.call(dv, [v], {})
        self.global_cache[ck] = v
        return v

    # ==================================================================================== attribute write
    def set_attr_raw(self, obj, name: str, val) -> None:
        r = smt.simp(Val.r(obj))
        arr = self.attr_array(name)
        self.st.attrs[name] = z3.Store(arr, r, val)
        self.writes.append((name, r, ''))

    def set_attr(self, obj, name: str, val, node=None) -> None:
        k = self.kind_of(obj, force=True)
        if k != 'ref':
            self.raise_new('AttributeError', smt.mk_str(f"cannot set attribute '{name}'"))
        so = self.static_of(obj)
        if so is not None:
            if isinstance(so, Closure):
                self.set_attr_raw(obj, name, val)
                return
            self.unsupported(f'attribute store on static {type(so).__name__}', node)
        c = self.require_class(obj, f'target of .{name} =')
        if not c.builtin:
            lk = c.lookup(name)
            if lk is not None and lk[0] == 'method' and lk[1].kind == 'property':
                if lk[1].setter is None:
                    self.raise_new('AttributeError', smt.mk_str(f"can't set attribute '{name}'"))
                self.call_function(lk[1].setter, [obj, val], {})
                return
            if c.is_dataclass and self.dataclass_frozen(c) and not getattr(self, '_in_dc_init', False):
                self.raise_new('AttributeError', smt.mk_str('frozen dataclass'))
        self.set_attr_raw(obj, name, val)

    def dataclass_frozen(self, c: ClassInfo) -> bool:
        for k in c.mro():
            if k.node is not None:
                for d in k.node.decorator_list:
                    if 'frozen=True' in ast.unparse(d):
                        return True
        return False

    # ==================================================================================== calls
    def ev_Call(self, e: ast.Call, fr: Frame):
        # special forms
        if isinstance(e.func, ast.Name) and not fr.has(e.func.id):
            n = e.func.id
            sf = getattr(self, f'special_{n}', None)
            if sf is not None and self.module_global(fr.module, n) is None:
                return sf(e, fr)
        if isinstance(e.func, ast.Attribute) and ast.unparse(e.func) in ('typing.cast',):
            return self.ev(e.args[1], fr)
        fv = self.ev(e.func, fr)
        so = self.static_of(fv)
        if isinstance(so, Builtin) and so.name in ('typing.cast', 'cast'):
            return self.ev(e.args[1], fr)
        args: List[Any] = []
        star = None
        for a in e.args:
            if isinstance(a, ast.Starred):
                sv = self.ev(a.value, fr)
                items = self.iter_items(sv, a)
                if items is None:
                    if star is not None:
                        self.unsupported('two symbolic *args', e)
                    star = self.to_seq_val(sv, a)
                else:
                    if star is not None:
                        self.unsupported('positional after symbolic *args', e)
                    args.extend(items)
            else:
                if star is not None:
                    self.unsupported('positional after symbolic *args', e)
                args.append(self.ev(a, fr))
        kwargs: Dict[str, Any] = {}
        dstar = None
        for kw in e.keywords:
            if kw.arg is None:
                dv = self.ev(kw.value, fr)
                items = self.dict_const_items(dv)
                if items is not None:
                    for kname, kv in items:
                        kwargs[kname] = kv
                else:
                    if dstar is not None:
                        dstar = self.merge_dicts(dstar, dv)
                    else:
                        dstar = dv
            else:
                kwargs[kw.arg] = self.ev(kw.value, fr)
        return self.call(fv, args, kwargs, star, dstar, e)

    def dict_const_items(self, dv):
        """[(name, val)] if dv is a dict freshly built on this path with constant string keys"""
        return None

    def special_isinstance(self, e, fr):
        v = self.ev(e.args[0], fr)
        kexprs = e.args[1].elts if isinstance(e.args[1], ast.Tuple) else [e.args[1]]
        conds = []
        for ke in kexprs:
            kv = self.ev(ke, fr)
            conds.append(self.isinstance_term(v, kv, e))
        return self.to_val_bool(z3.Or(*conds) if len(conds) > 1 else conds[0])

    def isinstance_term(self, v, kv, node=None):
        K = self.static_of(kv)
        if isinstance(K, Builtin):
            # typing aliases etc.
            self.unsupported(f'isinstance against {K.name}', node)
        if not isinstance(K, ClassInfo):
            items = self.iter_items(kv, node) if self.kind_of(kv) == 'ref' and self.static_of(kv) is None else None
            if items is not None:
                return z3.Or(*[self.isinstance_term(v, it, node) for it in items]) if items else z3.BoolVal(False)
            self.unsupported('isinstance against non-static class', node)
        if K.builtin and K.name in ('int', 'str', 'float', 'bool', 'NoneType'):
            t = {'int': smt.is_intlike(v), 'str': Val.is_str(v), 'float': Val.is_flt(v), 'bool': Val.is_bool(v),
                 'NoneType': Val.is_none(v)}[K.name]
            return smt.simp(t)
        if K.builtin and K.name == 'object':
            return z3.BoolVal(True)
        so = self.static_of(v)
        if so is not None:
            if isinstance(so, ClassInfo):
                return z3.BoolVal(K.name == 'type')
            return z3.BoolVal(K.name in ('function',) and isinstance(so, (Closure, BoundMethod)))
        exact = self.known_cls.get(smt.simp(v).get_id())
        if exact is not None:
            return z3.BoolVal(exact.is_subclass(K))
        tag = smt.tag_of(v)
        if tag is not None and tag != 'ref':
            return z3.BoolVal(False)
        cidt = smt.cls_of(Val.r(v))
        # being an instance of K entails being an instance of K's bases, and the class is one of the
        # library's subclasses of K or a class unknown to it (open universe)
        self._add_axiom(z3.Implies(z3.And(Val.is_ref(v), self.sub_term(cidt, K)), self.sub_chain(cidt, K)))
        term = z3.And(Val.is_ref(v), self.sub_term(cidt, K))
        term = smt.simp(term)
        self.isinst_terms[term.get_id()] = (v, K)
        # the engine branches on Val.is_ref and sub() separately after simplification: index both
        st = smt.simp(self.sub_term(smt.cls_of(Val.r(v)), K))
        self.isinst_terms[st.get_id()] = (v, K)
        return term

    def special_super(self, e, fr):
        f: Optional[Frame] = fr
        while f is not None and (f.cls is None or f.func is None):
            f = f.parent
        if f is None:
            self.unsupported('super() outside method', e)
        selfname = f.func.node.args.args[0].arg
        return self.static_val(SuperObj(f.locals[selfname], f.cls))

    def special_cast(self, e, fr):
        return self.ev(e.args[1], fr)

    # ------------------------------------------------------------------ generic call
    def resolve_ite(self, v):
        """split a merged value If(c, a, b) into the side taken on this path"""
        v = smt.simp(v)
        while z3.is_app(v) and v.decl().kind() == z3.Z3_OP_ITE and v.sort() == Val:
            v = smt.simp(v.arg(1) if self.branch(v.arg(0)) else v.arg(2))
        return v

    def call(self, fv, args: List[Any], kwargs: Dict[str, Any], star=None, dstar=None, node=None):
        fv = self.resolve_ite(fv)
        so = self.static_of(fv)
        if so is not None:
            if isinstance(so, Closure):
                return self.call_function(so, args, kwargs, star, dstar, node)
            if isinstance(so, BoundMethod):
                return self.call_function(so.func, [so.recv] + list(args), kwargs, star, dstar, node)
            if isinstance(so, ClassInfo):
                return self.instantiate(so, args, kwargs, star, dstar, node)
            if isinstance(so, Builtin):
                return self.builtin_call(so.name, args, kwargs, star, dstar, node)
            if isinstance(so, BoundBuiltin):
                return self.bound_builtin_call(so.name, so.recv, args, kwargs, star, dstar, node)
            if isinstance(so, Partial):
                kw = dict(so.kwargs)
                kw.update(kwargs)
                ds = so.dstar
                if ds is not None and dstar is not None:
                    ds = self.merge_dicts(ds, dstar)
                elif dstar is not None:
                    ds = dstar
                return self.call(so.func, list(so.args) + list(args), kw, star, ds, node)
            if isinstance(so, ExtObject):
                return self.ext_object_call(so, args, kwargs)
            self.unsupported(f'call of static {type(so).__name__}', node)
        k = self.kind_of(fv, force=True)
        if k != 'ref':
            self.raise_new('TypeError', smt.mk_str(f"'{k}' object is not callable"), origin='call of non-callable')
        co = self.classobj_bound(fv)
        if co is not None:
            return self.instantiate_symbolic(fv, co, args, kwargs, star, dstar, node)
        if self.class_of(fv) is None:
            for cand in self.callable_candidates:
                if self.branch(fv == cand):
                    return self.call(cand, args, kwargs, star, dstar, node)
        c = self.require_class(fv, 'callee')
        if c.builtin and (c.is_subclass(builtin_class('UserCallable')) or c.name in getattr(self, 'oracles', {})):
            return self.oracle_call(fv, args, kwargs, star, dstar, node)
        if c.builtin and c.name == 'partial':
            return self.oracle_call(fv, args, kwargs, star, dstar, node)
        lk = c.lookup('__call__')
        if lk and lk[0] == 'method':
            return self.call_function(self.method_target(lk[1]), [fv] + list(args), kwargs, star, dstar, node)
        self.unsupported(f'call of {c.name} instance', node)

    def classobj_bound(self, fv) -> Optional[ClassInfo]:
        return getattr(self, 'hint_classobj', {}).get(smt.simp(fv).get_id())

    def ext_object_call(self, so: ExtObject, args, kwargs):
        if so.name.endswith('.response_class'):
            return self.builtin_call('werkzeug.Response', args, kwargs)       # flask's current_app.response_class
        if so.name.startswith('logger'):
            if so.name.endswith('.getChild'):
                return self.static_val(ExtObject('logger'))
            return smt.NONE
        self.unsupported(f'call of external object {so.name}')

    def oracle_call(self, fv, args, kwargs, star, dstar, node=None):
        h = getattr(self, 'oracle_hook', None)
        if h is None:
            self.unsupported('call of abstract callable without an oracle', node)
        return h(fv, args, kwargs, star, dstar, node)

    # ------------------------------------------------------------------ repo functions
    def call_function(self, f, args: List[Any], kwargs: Dict[str, Any], star=None, dstar=None, node=None):
        if isinstance(f, Closure):
            fi, cframe, defaults = f.func, f.frame, f.defaults
        else:
            fi, cframe, defaults = f, None, None
        cur = getattr(self, 'current_contract', None)
        oc = (cur.extra.get('oracle_calls') or {}).get(fi.qualname) if cur is not None else None
        if oc is not None and fi.qualname not in self.no_contract_for:
            # this caller treats the callee as an abstract callable (its own contract is proved elsewhere)
            at = self.mk_tuple(list(args[1:]) if fi.cls is not None else list(args))
            kd = self.mk_dict([(smt.mk_str(k), v) for k, v in kwargs.items()])
            return self.oracle_outcome(oc, f'call:{fi.name}', args[0] if fi.cls is not None else smt.NONE, at, kd)
        ct = self.contracts.get(fi.qualname)
        if ct is not None and fi.qualname not in self.no_contract_for:
            extra_env = {}
            for cn in (ct.extra.get('closure') or {}):
                cv = cframe.lookup(cn) if cframe is not None else None
                if cv is None:
                    self.unsupported(f'closure variable {cn} of {fi.qualname} not bound at the call site', node)
                extra_env[cn] = cv
            return self.apply_contract(ct, fi, args, kwargs, star, dstar, node, extra_env)
        if self.depth >= INLINE_DEPTH:
            self.unsupported(f'inline depth exceeded at {fi.qualname}', node)
        fr = Frame(fi, fi.module, parent=cframe, cls=fi.cls)
        fr.is_spec = bool(fi.module is not None and fi.module.name.startswith(('spec.', 'contracts.')))
        if defaults is None:
            dfr = Frame(None, fi.module)
            defaults = self.eval_defaults(fi.node.args, dfr)
        self.bind_params(fi, fr, defaults, args, kwargs, star, dstar, node)
        if not isinstance(fi.node, ast.Lambda) and fi.is_generator:
            return self.make_generator(fi, fr)
        self.depth += 1
        try:
            if isinstance(fi.node, ast.Lambda):
                return self.ev(fi.node.body, fr)
            try:
                self.ex_block(fi.node.body, fr)
            except ReturnSig as r:
                return r.val
            return smt.NONE
        finally:
            self.depth -= 1

    def bind_params(self, fi: FuncInfo, fr: Frame, defaults, args, kwargs, star, dstar, node=None) -> None:
        a: ast.arguments = fi.node.args
        pos = [x.arg for x in a.posonlyargs + a.args]
        kwonly = [x.arg for x in a.kwonlyargs]
        kwargs = dict(kwargs)
        loc = fr.locals
        n = len(args)
        for i, p in enumerate(pos):
            if i < n:
                loc[p] = args[i]
        extra = list(args[len(pos):])
        unbound = [p for p in pos[n:]] + kwonly
        if a.vararg is not None:
            if star is not None:
                if len(pos) > n:
                    self.unsupported(f'symbolic *args against unfilled positional parameters of {fi.qualname}', node)
                if extra:
                    t = self.mk_tuple(extra)
                    self.set_seq(t, z3.Concat(self.get_seq(t), self.get_seq(star)))
                else:
                    t = self.alloc(builtin_class('tuple'))
                    self.set_seq(t, self.get_seq(star))
                loc[a.vararg.arg] = t
            else:
                loc[a.vararg.arg] = self.mk_tuple(extra)
        else:
            if extra:
                self.raise_new('TypeError', smt.mk_str(f'{fi.name}() takes {len(pos)} positional arguments'),
                               origin=f'call of {fi.qualname}')
            if star is not None:
                items = self.seq_items(self.get_seq(star))
                if items is None:
                    self.unsupported(f'symbolic *args against fixed parameters of {fi.qualname}', node)
        removed: List[str] = []
        for p in unbound:
            if p in kwargs:
                loc[p] = kwargs.pop(p)
                continue
            if dstar is not None:
                v = self.dict_get(dstar, smt.mk_str(p))
                if self.branch(v != smt.ABSENT):
                    loc[p] = v
                    removed.append(p)
                    continue
            if p in defaults:
                loc[p] = defaults[p]
            else:
                self.raise_new('TypeError', smt.mk_str(f'{fi.name}() missing argument {p}'),
                               origin=f'call of {fi.qualname}')
        for p in pos[:n]:
            if p in kwargs:
                self.raise_new('TypeError', smt.mk_str(f'{fi.name}() got multiple values for argument {p}'))
        if a.kwarg is not None:
            if dstar is not None:
                d = self.dict_copy(dstar)
                for p in removed:
                    self.dict_del(d, smt.mk_str(p))
                for k, v in kwargs.items():
                    self.dict_set(d, smt.mk_str(k), v)
            else:
                d = self.mk_dict([(smt.mk_str(k), v) for k, v in kwargs.items()])
            loc[a.kwarg.arg] = d
        else:
            if kwargs:
                self.raise_new('TypeError', smt.mk_str(f'{fi.name}() got an unexpected keyword argument'),
                               origin=f'call of {fi.qualname}')

    # ------------------------------------------------------------------ instantiation
    def instantiate(self, c: ClassInfo, args, kwargs, star=None, dstar=None, node=None):
        if c.builtin:
            if c.is_subclass(builtin_class('BaseException')):
                e = self.alloc(c)
                self.set_attr_raw(e, 'args', self.mk_tuple(list(args)))
                return e
            if c.name in ('SimpleNamespace', 'UserObject', 'object'):
                o = self.alloc(c)
                for k, v in kwargs.items():
                    self.set_attr_raw(o, k, v)
                return o
            return self.builtin_call(c.name, args, kwargs, star, dstar, node)
        obj = self.alloc(c)
        self.init_object(obj, c, args, kwargs, star, dstar, node)
        return obj

    def init_object(self, obj, c: ClassInfo, args, kwargs, star=None, dstar=None, node=None) -> None:
        lk = c.lookup('__init__')
        if lk is not None and lk[0] == 'method':
            self.call_function(self.method_target(lk[1]), [obj] + list(args), kwargs, star, dstar, node)
            return
        if c.is_dataclass or any(k.is_dataclass for k in c.mro()):
            self.dataclass_init(obj, c, args, kwargs, node)
            return
        if c.is_subclass(builtin_class('BaseException')):
            items = list(args)
            if star is not None:
                its = self.seq_items(self.get_seq(star))
                if its is None:
                    t = self.alloc(builtin_class('tuple'))
                    self.set_seq(t, z3.Concat(self.seq_of_items(items), self.get_seq(star)))
                    self.set_attr_raw(obj, 'args', t)
                    return
                items += its
            self.set_attr_raw(obj, 'args', self.mk_tuple(items))
            return
        if args or kwargs:
            self.raise_new('TypeError', smt.mk_str(f'{c.name}() takes no arguments'))

    def dataclass_init(self, obj, c: ClassInfo, args, kwargs, node=None) -> None:
        fields: List[Tuple[str, Optional[ast.expr], ClassInfo]] = []
        for k in reversed(c.mro()):
            if k.is_dataclass:
                for name, default in k.dc_fields:
                    fields = [f for f in fields if f[0] != name]
                    fields.append((name, default, k))
        kwargs = dict(kwargs)
        self._in_dc_init = True
        try:
            for i, (name, default, owner) in enumerate(fields):
                if i < len(args):
                    v = args[i]
                elif name in kwargs:
                    v = kwargs.pop(name)
                elif default is not None:
                    fr = Frame(None, owner.module)
                    dtxt = ast.unparse(default)
                    if dtxt.startswith(('dc.field(', 'dataclasses.field(', 'field(')):
                        v = self.dc_field_default(default, fr)
                        if v is None:
                            self.raise_new('TypeError', smt.mk_str(f'missing argument {name}'))
                    else:
                        v = self.ev(default, fr)
                else:
                    self.raise_new('TypeError', smt.mk_str(f'missing argument {name}'))
                self.set_attr_raw(obj, name, v)
            if kwargs:
                self.raise_new('TypeError', smt.mk_str('unexpected keyword argument'))
        finally:
            self._in_dc_init = False
        lk = c.lookup('__post_init__')
        if lk and lk[0] == 'method':
            self.call_function(lk[1], [obj], {})

    def dc_field_default(self, call: ast.Call, fr: Frame):
        for kw in call.keywords:
            if kw.arg == 'default':
                return self.ev(kw.value, fr)
            if kw.arg == 'default_factory':
                return self.call(self.ev(kw.value, fr), [], {})
        return None

    def instantiate_symbolic(self, clsval, bound: ClassInfo, args, kwargs, star, dstar, node=None):
        """call of a class object known only up to an upper bound (A-classes: __init__ not overridden)"""
        obj = self.alloc_symbolic_class(Val.r(clsval))
        self.set_class(obj, bound, exact=False)
        self.init_object(obj, bound, args, kwargs, star, dstar, node)
        return obj
