"""
Entry point behind ./check.

    python -m pyvc.cli <property|all> [--tier quick|thorough] [--only <substring>] [--jobs N]
    python -m pyvc.cli --replay <file>

Exit codes: 0 every obligation discharged; 1 a failed obligation (VIOLATION line, replay file);
2 undecided (unsupported construct / solver unknown); 3 checker error (cross-check mismatch, vacuity, crash).
"""
from __future__ import annotations

import argparse
import ast
import glob
import hashlib
import json
import multiprocessing as mp
import os
import sys
import time
import traceback
from typing import Any, Dict, List, Optional, Tuple

HERE = os.path.dirname(os.path.dirname(os.path.abspath(__file__)))
REPO = os.environ.get('PJRPC_REPO', '/repo')

GLOBAL_ASSUMPTIONS = [
    'A-engine: the VC generator (pyvc, ~9 kLoC of Python over the real AST) is itself unverified - including its '
    'semantics of comprehensions as order-preserving filter-maps, of loops via invariants and of quantifier instantiation; '
    'mitigated by the CPython cross-check of explored paths and native replay of every counterexample',
    'A-python: value model of DESIGN.md 3.1 (ints mathematical, floats as reals, `is` on scalars as value '
    'equality, dict iteration order arbitrary but fixed, generator laziness erased)',
    'A-classes: default message classes, no monkey-patching; user subclasses of library classes do not '
    'override the methods under contract',
    'A-log: logging calls are no-ops',
    'A-resource: no MemoryError / RecursionError / signals',
    'A-user: abstract user callables / objects behave as stated per kind in contracts/oracles.py (ORACLES, ORACLE_METHODS): '
    'methods return JSON-encodable values or raise; middlewares return UNSET or a well-formed Response; error handlers, tracers, '
    'validators, status functions and the exclusion predicate do not raise; their calls are recorded in the ghost trace',
    'A-fields: field typing invariants of library objects (contracts/oracles.py FIELD_TYPES, CLASS_INVARIANTS) are assumed for '
    'objects that exist on entry and for fields havocked on behalf of a callee',
    'A-models: assumed models of dependencies, used wherever the code calls them: json.loads / json.dumps (uninterpreted '
    'parsed / doc_of, three outcomes of loads), time.sleep / asyncio.sleep (record only), asyncio.gather (results in argument '
    'order), functools.partial / wraps / lru_cache (transparent), inspect.signature / Signature.bind / BoundArguments '
    '(pyvc/engine_inspect.py), jsonschema.validate (schema_ok), werkzeug / flask / aiohttp request and response objects, '
    'collections.defaultdict, logging (no-op)',
]

_W: Dict[str, Any] = {}


def sidecar_modules() -> Dict[str, str]:
    extra = {'pyvc.api': os.path.join(HERE, 'pyvc', 'api.py')}
    for d in ('spec', 'contracts'):
        for f in sorted(glob.glob(os.path.join(HERE, d, '*.py'))):
            n = os.path.basename(f)[:-3]
            if n == '__init__':
                continue
            extra[f'{d}.{n}'] = f
    return extra


def build():
    from .index import Index
    from .contracts import load_contracts
    from .verify import Verifier
    try:
        import z3 as _z3
        _seed = int(os.environ.get('VERIF_SEED', '0') or 0)
        _z3.set_param('smt.random_seed', _seed)
        _z3.set_param('sat.random_seed', _seed)
    except Exception:
        pass
    if HERE not in sys.path:
        sys.path.insert(0, HERE)
    extra = sidecar_modules()
    ix = Index(REPO, 'pjrpc', extra)
    cmods = [m for m in extra if m.startswith('contracts.')]
    cts = load_contracts(ix, cmods)
    v = Verifier(ix, cts)
    v.global_dict_types = {}
    v.class_attr_types = {}
    v.class_attr_final = set()
    for m in cmods:
        a = ix.modules[m].assigns
        if 'GLOBAL_DICT_TYPES' in a:
            v.global_dict_types.update(ast.literal_eval(a['GLOBAL_DICT_TYPES']))
        if 'CLASS_ATTR_TYPES' in a:
            v.class_attr_types.update(ast.literal_eval(a['CLASS_ATTR_TYPES']))
        if 'CLASS_ATTR_FINAL' in a:
            v.class_attr_final = set(v.class_attr_final) | set(tuple(x) for x in ast.literal_eval(a['CLASS_ATTR_FINAL']))
        if 'FIELD_TYPES' in a:
            v.field_types.update(ast.literal_eval(a['FIELD_TYPES']))
        if 'ORACLE_METHODS' in a:
            v.oracle_methods.update(ast.literal_eval(a['ORACLE_METHODS']))
        if 'CLASS_INVARIANTS' in a:
            v.class_invariants.update(ast.literal_eval(a['CLASS_INVARIANTS']))
        if 'ORACLES' in a:
            v.oracles.update(ast.literal_eval(a['ORACLES']))
    # A-classes: UNSET is the only instance of UnsetType
    um = ix.modules.get('pjrpc.common.common')
    if um is not None and 'UnsetType' in um.classes and 'UNSET' in um.assigns:
        gv = v.static_val(('global', um.name, 'UNSET'), key=f'global:{um.name}:UNSET')
        from . import smt as _smt
        v.singletons = [(um.classes['UnsetType'], _smt.static_id(gv))]
    return ix, cts, v


def _init_worker(queue=None):
    try:
        _W['ix'], _W['cts'], _W['v'] = build()
        _W['queue'] = queue
    except Exception:
        _W['err'] = traceback.format_exc()


def ob_summary(o) -> Dict[str, Any]:
    return {'id': o.oid, 'function': o.func, 'kind': o.kind, 'clause': o.text, 'props': list(o.props),
            'verdict': o.verdict, 'backend': o.backend, 'ms': round(o.ms, 2), 'pc_size': len(o.pc),
            'decisions': list(o.decisions)}


def _blank(q: str) -> Dict[str, Any]:
    return {'function': q, 'obligations': [], 'failures': [], 'unsupported': [], 'errors': [], 'paths': 0, 'covers': {},
            'stats': {}, 'wall_s': 0.0, 'cross': {'checked': 0, 'agree': 0, 'mismatch': [], 'unrealisable': 0}}


def verify_path_task(task: Tuple[str, List[int]]) -> Dict[str, Any]:
    """runs in a worker: explore ONE path of one function; returns its obligations, native replays of failures,
    cross-check records and the alternative decision prefixes it discovered"""
    q, decisions = task
    out = _blank(q)
    out['pending'] = []
    if 'err' in _W:
        out['errors'].append(_W['err'])
        return out
    ix, cts, v = _W['ix'], _W['cts'], _W['v']
    t0 = time.time()
    try:
        from .replay import replay
        ct = cts[q]
        fi = ix.find(q.split('@')[0])
        if fi is None:
            out['unsupported'].append(f'contract target {q} not found in the repository (renamed / removed?)')
            return out
        out['contract'] = f'{ct.module}:{ct.name}'
        out['sha1'] = fi.sha1()
        out['assumed'] = ct.assumed
        out['props'] = list(ct.props)
        out['assume_no_raise'] = dict(ct.extra.get('assume_no_raise', {}))
        out['assumed_clauses'] = list(ct.extra.get('assumed_clauses', ()))
        if ct.assumed:
            return out
        v.cross_check = ct.extra.get('cross_check', True)
        v.cross = []
        qu = _W.get('queue')
        v.pending_sink = (lambda p: qu.put((q, list(p)))) if qu is not None else None
        v.comp_matched = set()
        r, pend = v.verify_one_path(fi, ct, decisions)
        out['comp_matched'] = sorted(v.comp_matched)
        out['comp_names'] = sorted((ct.extra.get('comp_clauses') or {}).keys())
        out['pending'] = pend
        out['paths'] = 1
        out['covers'] = r.covers
        out['stats'] = {k: (round(x, 3) if isinstance(x, float) else x) for k, x in r.stats.items()}
        out['unsupported'] = list(r.unsupported)
        out['live'] = bool(r.covers)
        out['obligations'] = [ob_summary(o) for o in r.obligations]
        for o in r.obligations:
            if o.verdict == 'failed':
                rep = replay(v, fi, ct, o.model, o.info)
                f = ob_summary(o)
                f['replay'] = rep
                f['model'] = str(o.model)[:4000]
                out['failures'].append(f)
            elif o.verdict == 'unknown':
                out['unsupported'].append(f'solver unknown on {o.oid} ({o.text}): {o.info.get("reason")}')
        for c in v.cross:
            st = c.get('status')
            if st in ('unrealisable', 'precondition-not-met'):
                out['cross']['unrealisable'] += 1
            elif st in ('concretizer-error', 'replay-error'):
                # the harness could not build / run a concrete input for this model: no comparison was made (counted,
                # never an agreement and never an alarm)
                out['cross']['unrealisable'] += 1
            elif st in ('contract-error',):
                out['cross']['mismatch'].append(c)
            else:
                out['cross']['checked'] += 1
                if c['predicted'] == c['native']:
                    out['cross']['agree'] += 1
                else:
                    out['cross']['mismatch'].append(c)
    except Exception:
        out['errors'].append(traceback.format_exc())
    out['wall_s'] = round(time.time() - t0, 2)
    return out


def merge_into(acc: Dict[str, Any], r: Dict[str, Any]) -> None:
    for k in ('contract', 'sha1', 'assumed', 'props', 'assume_no_raise', 'assumed_clauses'):
        if k in r:
            acc[k] = r[k]
    acc['obligations'] += r['obligations']
    acc['failures'] += r['failures']
    for u in r['unsupported']:
        if u not in acc['unsupported']:
            acc['unsupported'].append(u)
    acc['errors'] += r['errors']
    acc['paths'] += r.get('paths', 0)
    for k, n in r.get('covers', {}).items():
        acc['covers'][k] = acc['covers'].get(k, 0) + n
    for k, x in r.get('stats', {}).items():
        if isinstance(x, (int, float)):
            acc['stats'][k] = round(acc['stats'].get(k, 0) + x, 3)
    acc['wall_s'] = round(acc['wall_s'] + r.get('wall_s', 0), 2)
    for k in ('checked', 'agree', 'unrealisable'):
        acc['cross'][k] += r['cross'][k]
    acc['cross']['mismatch'] += r['cross']['mismatch']
    acc['live'] = acc.get('live', False) or r.get('live', False)
    acc['comp_matched'] = sorted(set(acc.get('comp_matched', [])) | set(r.get('comp_matched', [])))
    if r.get('comp_names'):
        acc['comp_names'] = r['comp_names']


def run_all(targets: List[str], jobs: int) -> List[Dict[str, Any]]:
    """path-level work queue over a process pool: every (function, decision prefix) is one task"""
    import concurrent.futures as cf
    acc = {q: _blank(q) for q in targets}
    limit = int(os.environ.get('PYVC_MAX_PATHS', '4000'))
    if jobs <= 1:
        _init_worker()
        todo = [(q, []) for q in targets]
        while todo:
            q, d = todo.pop()
            r = verify_path_task((q, d))
            merge_into(acc[q], r)
            if acc[q]['paths'] < limit:
                todo += [(q, p) for p in r.get('pending', [])]
        return [finish(acc[q]) for q in targets]
    mgr = mp.Manager()
    queue = mgr.Queue()
    submitted = {q: 0 for q in targets}
    with cf.ProcessPoolExecutor(max_workers=jobs, initializer=_init_worker, initargs=(queue,)) as ex:
        futs = {ex.submit(verify_path_task, (q, [])): q for q in targets}
        for q in targets:
            submitted[q] = 1

        def drain():
            import queue as _q
            while True:
                try:
                    q2, p2 = queue.get_nowait()
                except _q.Empty:
                    return
                if submitted[q2] < limit:
                    submitted[q2] += 1
                    futs[ex.submit(verify_path_task, (q2, p2))] = q2
                elif 'path limit exceeded' not in acc[q2]['unsupported']:
                    acc[q2]['unsupported'].append('path limit exceeded')

        while futs:
            done, _ = cf.wait(list(futs), timeout=0.25, return_when=cf.FIRST_COMPLETED)
            drain()
            for f in done:
                q = futs.pop(f)
                try:
                    r = f.result()
                except Exception:
                    r = _blank(q)
                    r['errors'].append(traceback.format_exc())
                merge_into(acc[q], r)
                for p in r.get('pending', []):
                    if submitted[q] < limit:
                        submitted[q] += 1
                        futs[ex.submit(verify_path_task, (q, p))] = q
            drain()
    return [finish(acc[q]) for q in targets]


def finish(a: Dict[str, Any]) -> Dict[str, Any]:
    a['vacuous'] = (not a.get('assumed')) and not a.get('live') and not a['unsupported'] and not a['errors'] \
        and not a['failures']
    # reachability guard behind the contracts used on the way: a function whose normal return is unreachable under its
    # own precondition and its callees' contracts has (some) contradictory contract - everything after would be proved
    # vacuously.  (never_returns = True for the rare function that only raises.)
    # a comprehension contract that matched no comprehension on any path was silently not applied
    a['comp_unmatched'] = [] if (a.get('assumed') or a['unsupported'] or a['errors']) else \
        [n for n in a.get('comp_names', []) if n not in a.get('comp_matched', [])]
    a['no_return'] = (not a.get('assumed')) and a.get('live') and not a.get('covers', {}).get('return') \
        and not a['unsupported'] and not a['errors'] and not a['failures'] and not a.get('never_returns')
    return a


def load_props() -> Dict[str, Dict[str, Any]]:
    props = {}
    with open(os.path.join(HERE, 'properties.jsonl')) as f:
        for line in f:
            if line.strip():
                d = json.loads(line)
                props[d['id']] = d
    return props


def main(argv=None) -> int:
    ap = argparse.ArgumentParser()
    ap.add_argument('prop', nargs='?')
    ap.add_argument('--tier', default=os.environ.get('VERIF_TIER', 'quick'))
    ap.add_argument('--only', default=None)
    ap.add_argument('--jobs', type=int, default=min(16, os.cpu_count() or 4))
    ap.add_argument('--replay', default=None)
    ap.add_argument('--no-evidence', action='store_true')
    a = ap.parse_args(argv)
    seed = int(os.environ.get('VERIF_SEED', '0') or 0)
    t0 = time.time()
    if a.replay:
        with open(a.replay) as f:
            rp = json.load(f)
        a.prop = rp['property']
        a.only = rp['function']
        a.no_evidence = True
    if not a.prop:
        ap.error('property id required')
    # thorough tier: same obligations with a 6x solver budget per query, and the bounded stand-ins with larger bounds
    os.environ['VERIF_TIER'] = a.tier
    if a.tier == 'thorough':
        from . import pathmgr as _pm
        _pm.SOLVER_TIMEOUT_MS = 60_000
    ix, cts, v = build()
    pid = a.prop
    targets = []
    for q, ct in sorted(cts.items()):
        if pid != 'all' and pid not in ct.props and not any(pid in p for p in ct.clause_props.values()):
            continue
        if a.only and a.only not in q:
            continue
        targets.append(q)
    if not targets:
        print(f'CHECKER-ERROR: no function under contract serves property {pid} (zero obligations)')
        return 3
    results = run_all(targets, a.jobs)
    standins = run_standins(pid)
    return report(pid, a, results, seed, time.time() - t0, cts, standins)


def run_standins(pid: str) -> List[Dict[str, Any]]:
    """bounded stand-ins for ASSUMED clauses: they can find violations, they never count as proof"""
    import importlib
    out = []
    for f in sorted(glob.glob(os.path.join(HERE, 'standins', '*.py'))):
        n = os.path.basename(f)[:-3]
        if n == '__init__':
            continue
        try:
            m = importlib.import_module(f'standins.{n}')
            if pid != 'all' and pid not in getattr(m, 'PROPS', []):
                continue
            t = time.time()
            cases, viol = m.run()
            rec = {'name': m.NAME, 'bound': m.BOUND, 'cases': cases, 'violations': viol, 'labelled': 'bounded',
                   'wall_s': round(time.time() - t, 2), 'known': []}
            if hasattr(m, 'run_known'):
                # inputs of a recorded (not repaired) defect: reported as KNOWN-FINDING while they still fail and are
                # listed in known_findings.json; an unlisted one is a violation
                for key, fails, detail in m.run_known():
                    if fails:
                        rec['known'].append({'key': f'{m.NAME}:{key}', 'detail': detail})
            out.append(rec)
        except Exception:
            out.append({'name': n, 'error': traceback.format_exc(), 'violations': [], 'cases': 0, 'labelled': 'bounded'})
    return out


def load_known(pid: str) -> Dict[str, str]:
    """known_findings.json 'known' entries of this property: key -> text (committed file, never written at run time)"""
    try:
        with open(os.path.join(HERE, 'known_findings.json')) as fh:
            kf = json.load(fh)
    except Exception:
        return {}
    return {e['key']: e['text'] for e in kf.get('known', []) if e.get('property') == pid}


def relevant(ob: Dict[str, Any], pid: str) -> bool:
    return pid == 'all' or pid in ob['props']


# native witness search: where the counter-model of a failed obligation is an abstract (framework) object that
# cannot be replayed as is, a per-property script looks for a concrete input showing a violation on the real code.
# Not part of the proof; only decides whether the VIOLATION line carries a reproduced input.
_SRV = ('replayers/c01.py', ((':Dispatcher.', 'Dispatcher'), (':AsyncDispatcher.', 'AsyncDispatcher')))
WITNESS_SEARCH = {'C18': ('replayers/c18.py', (('.werkzeug:', 'werkzeug'), ('.flask:', 'flask'), ('.aiohttp:', 'aiohttp'))),
                  'C16': ('replayers/c16.py', (('.openapi:', 'openapi'), ('.openrpc:', 'openrpc'))),
                  'C01': _SRV, 'C02': _SRV, 'C03': _SRV, 'C11': _SRV, 'C12': _SRV}


def witness_search(pid, violations):
    if pid not in WITNESS_SEARCH or not violations:
        return
    import subprocess
    script, keys = WITNESS_SEARCH[pid]
    cache = {}
    for f in violations:
        rep = f.setdefault('replay', {})
        if rep.get('status') == 'violation-reproduced':
            continue
        key = next((arg for sub, arg in keys if sub in f['function']), None)
        if key is None:
            continue
        if key not in cache:
            env = dict(os.environ, PYTHONPATH=REPO)
            try:
                p = subprocess.run([sys.executable, os.path.join(HERE, script), key], capture_output=True, text=True,
                                   timeout=300, env=env, cwd='/')
                cache[key] = json.loads(p.stdout.strip().splitlines()[-1]) if p.stdout.strip() else \
                    {'failing': [], 'error': p.stderr[-400:]}
            except Exception as e:
                cache[key] = {'failing': [], 'error': f'{type(e).__name__}: {e}'}
        res = cache[key]
        if res.get('failing'):
            rep.update({'status': 'violation-reproduced', 'how': f'native witness search {script} {key}',
                        'inputs': res['failing'][0], 'more': len(res['failing']) - 1})
        else:
            rep.setdefault('witness_search', f"{script} {key}: no concrete witness ({res.get('error')})")


def report(pid: str, a, results: List[Dict[str, Any]], seed: int, wall: float, cts, standins=()) -> int:
    os.makedirs(os.path.join(HERE, 'replays'), exist_ok=True)
    os.makedirs(os.path.join(HERE, 'evidence'), exist_ok=True)
    n_ob = n_dis = 0
    violations: List[Dict[str, Any]] = []
    undecided: List[str] = []
    errors: List[str] = []
    funcs = []
    backends: Dict[str, Dict[str, float]] = {}
    samples: List[Dict[str, Any]] = []
    cross_checked = cross_agree = 0
    assumed_used = []
    scanned = set()
    # assumed contracts anywhere in the sidecars are used wherever the functions under proof call them
    for q, c in sorted(cts.items()):
        if c.assumed and q == c.target:
            assumed_used.append(f'assumed contract (never proved; used at its call sites): {q}')
    for r in results:
        if r.get('assumed'):
            assumed_used.append(f"assumed contract (never proved): {r['function']}")
            continue
        for callee, why in (r.get('assume_no_raise') or {}).items():
            assumed_used.append(f"assumed lemma in {r['function']}: {callee} does not raise there - {why}")
        for cl in r.get('assumed_clauses') or []:
            assumed_used.append(f"assumed clause (not proved) {r['function']}::{cl}")
        cmod = (r.get('contract') or '').split(':')[0]
        if cmod and cmod not in scanned:
            scanned.add(cmod)
            # mechanical scan of the sidecar module for trusted constructs
            try:
                src = open(os.path.join(HERE, *cmod.split('.')) + '.py').read()
                n_def = src.count('define(')
                n_unchecked = src.count('frame_unchecked = True')
                if n_def:
                    assumed_used.append(f'{cmod}: {n_def} definitional axiom instance(s) (define(...)) of uninterpreted '
                                        f'spec predicates - trusted definitions')
                if n_unchecked:
                    assumed_used.append(f'{cmod}: {n_unchecked} contract(s) with frame_unchecked = True (frame not proved)')
            except OSError:
                pass
        obs = [o for o in r['obligations'] if relevant(o, pid)]
        n_ob += len(obs)
        n_dis += sum(1 for o in obs if o['verdict'] == 'discharged')
        for o in obs:
            b = backends.setdefault(o['backend'] or 'none', {'count': 0, 'total_ms': 0.0, 'max_ms': 0.0})
            b['count'] += 1
            b['total_ms'] = round(b['total_ms'] + o['ms'], 2)
            b['max_ms'] = max(b['max_ms'], o['ms'])
        if obs and len(samples) < 8:
            samples.append({k: obs[0][k] for k in ('function', 'kind', 'clause', 'verdict', 'backend', 'ms', 'pc_size')})
            if len(obs) > 1:
                samples.append({k: obs[-1][k] for k in ('function', 'kind', 'clause', 'verdict', 'backend', 'ms', 'pc_size')})
        funcs.append({'function': r['function'], 'contract': r.get('contract'), 'source_sha1': r.get('sha1'),
                      'paths': r.get('paths', 0), 'outcomes_reached': r.get('covers', {}),
                      'obligations': len(obs), 'wall_s': r.get('wall_s')})
        for f in r['failures']:
            if relevant(f, pid):
                violations.append(f)
        for u in r['unsupported']:
            undecided.append(f"{r['function']}: {u}")
        for e in r['errors']:
            errors.append(f"{r['function']}: {e}")
        if r.get('vacuous'):
            errors.append(f"{r['function']}: vacuous precondition (no feasible path)")
        for cn in r.get('comp_unmatched') or []:
            errors.append(f"{r['function']}: comprehension contract comp_{cn} matched no comprehension of the body "
                          f"(renamed / rewritten? the clauses were not applied)")
        if r.get('no_return'):
            errors.append(f"{r['function']}: no feasible path returns normally (contradictory contracts on the way?)")
        cross_checked += r['cross']['checked']
        cross_agree += r['cross']['agree']
        for m in r['cross']['mismatch']:
            errors.append(f"{r['function']}: CPython cross-check mismatch: {json.dumps(m, default=str)[:600]}")
    if n_ob == 0 and not errors and not undecided:
        errors.append('zero obligations generated')
    rc = 0
    lines = []
    witness_search(pid, violations)
    for f in violations:
        h = hashlib.sha1((f['id'] + f['clause']).encode()).hexdigest()[:10]
        path = os.path.join(HERE, 'replays', f'{pid}-{h}.json')
        rep = f.get('replay', {})
        with open(path, 'w') as fh:
            json.dump({'property': pid, 'function': f['function'], 'obligation': f['id'], 'kind': f['kind'],
                       'clause': f['clause'], 'decisions': f['decisions'], 'replay': rep,
                       'solver_model': f.get('model')}, fh, indent=1, default=str)
        tail = '' if rep.get('status') == 'violation-reproduced' else ' no-failing-input-found'
        lines.append(f'VIOLATION property={pid} replay={path}{tail}')
        print(f"  failed obligation {f['id']}: {f['clause']}")
        print(f"    inputs: {rep.get('inputs')}")
        print(f"    native: {rep.get('status')} {rep.get('outcome')} {rep.get('violations')} {str(rep.get('detail'))[-300:]}")
        rc = 1
    for sd in standins:
        if sd.get('error'):
            errors.append(f"stand-in {sd['name']}: {sd['error'][-300:]}")
        for i, vl in enumerate(sd['violations']):
            h = hashlib.sha1((sd['name'] + json.dumps(vl, sort_keys=True, default=str)).encode()).hexdigest()[:10]
            path = os.path.join(HERE, 'replays', f'{pid}-standin-{h}.json')
            with open(path, 'w') as fh:
                json.dump({'property': pid, 'standin': sd['name'], 'bound': sd['bound'], 'function': sd['name'],
                           'failing_input': vl}, fh, indent=1, default=str)
            print(f"  bounded stand-in {sd['name']} found a failing input: {json.dumps(vl, default=str)[:300]}")
            lines.append(f'VIOLATION property={pid} replay={path}')
            rc = 1
    known = load_known(pid)
    for sd in standins:
        for kf in sd.get('known', []):
            ent = known.get(kf['key'])
            if ent is not None:
                print(f"KNOWN-FINDING: property={pid} {ent}")
            else:
                h = hashlib.sha1(kf['key'].encode()).hexdigest()[:10]
                path = os.path.join(HERE, 'replays', f'{pid}-standin-{h}.json')
                with open(path, 'w') as fh:
                    json.dump({'property': pid, 'standin': sd['name'], 'function': sd['name'], 'failing_input': kf}, fh,
                              indent=1, default=str)
                lines.append(f'VIOLATION property={pid} replay={path}')
                rc = 1
    for u in undecided:
        print(f'UNDECIDED {u}')
    for e in errors:
        print(f'CHECKER-ERROR {e}')
    if rc == 0 and errors:
        rc = 3
    if rc == 0 and undecided:
        rc = 2
    for ln in dict.fromkeys(lines):
        print(ln)
    ev = {
        'property_id': pid, 'tier': a.tier if a.tier in ('quick', 'thorough') else 'quick', 'seed': seed,
        'level': 'proof',
        'coverage': {
            'obligations': n_ob, 'discharged': n_dis,
            'checker_cmd': f'./check {pid} --tier {a.tier}',
            'trusted_base': assumed_used + GLOBAL_ASSUMPTIONS,
            'functions_under_contract': funcs,
            'backends': backends,
            'paths_cross_checked_against_cpython': cross_checked,
            'cross_check_agreements': cross_agree,
            'undecided': undecided,
            'bounded_standins': [{k: v for k, v in sd.items() if k != 'violations'} | {'violations': len(sd['violations'])}
                                 for sd in standins],
            'samples': samples,
            'exit_code': rc,
        },
        'assumptions': assumed_used + GLOBAL_ASSUMPTIONS,
        'wall_s': round(wall, 2),
        'violations': len(violations) + sum(len(sd['violations']) for sd in standins),
    }
    if not a.no_evidence and pid != 'all':
        with open(os.path.join(HERE, 'evidence', f'{pid}.json'), 'w') as fh:
            json.dump(ev, fh, indent=1, default=str)
    print(f'{pid}: functions={len(funcs)} obligations={n_ob} discharged={n_dis} violations={len(violations)} '
          f'undecided={len(undecided)} errors={len(errors)} cross-checked={cross_agree}/{cross_checked} '
          f'wall={wall:.1f}s exit={rc}')
    return rc


if __name__ == '__main__':
    sys.exit(main())
