"""
Native evaluation of a sidecar contract around a call of the REAL function.

Used (a) to replay solver counterexamples: the violation is confirmed when the real function, run
on the concretised inputs, breaks the same contract natively; (b) as the CPython cross-check of
every explored path; (c) as a run-time monitor under the repository's tests.
"""
from __future__ import annotations

import copy
import inspect
import traceback
from typing import Any, Dict, List, Optional, Tuple

from .concretize import import_qualname


def clause_args(fn, env: Dict[str, Any]) -> Dict[str, Any]:
    names = list(inspect.signature(fn).parameters)
    return {n: env[n] for n in names}


def clauses(ccls, prefix: str) -> List[Tuple[str, Any]]:
    out = []
    for n, f in vars(ccls).items():
        if n.startswith(prefix) and callable(f):
            out.append((n, f))
    return out


def exc_class(q: str):
    try:
        return import_qualname(q)
    except Exception:
        import builtins
        return getattr(builtins, q.split(':')[-1])


def run_checked(ccls, func, env: Dict[str, Any], call) -> Dict[str, Any]:
    """call() runs the real function; env maps parameter names to the concrete arguments"""
    rep: Dict[str, Any] = {'violations': [], 'outcome': None}
    pre: Dict[str, Any] = {}
    try:
        for n, f in clauses(ccls, 'requires'):
            if not f(**clause_args(f, env)):
                rep['outcome'] = 'precondition-not-met'
                rep['violations'] = []
                rep['pre_failed'] = n
                return rep
        ri = vars(ccls).get('returns_iff')
        if ri is not None:
            pre['returns_iff'] = bool(ri(**clause_args(ri, env)))
        for n, f in clauses(ccls, 'raises_'):
            if n.endswith('_iff'):
                pre[n] = bool(f(**clause_args(f, env)))
    except Exception as ex:
        rep['outcome'] = 'contract-error'
        rep['error'] = ''.join(traceback.format_exception_only(type(ex), ex)).strip()
        return rep
    raises_only = tuple(exc_class(q) for q in getattr(ccls, 'raises_only', ()))
    try:
        result = call()
        rep['outcome'] = 'return'
        rep['result'] = safe_repr(result)
    except BaseException as ex:       # noqa: the analysed code may raise anything
        rep['outcome'] = f'raise:{type(ex).__name__}'
        rep['exception'] = safe_repr(ex)
        if not isinstance(ex, raises_only):
            rep['violations'].append(f'raises_only: {type(ex).__name__} escaped; allowed '
                                     f'{[c.__name__ for c in raises_only]}')
        if 'returns_iff' in pre and pre['returns_iff']:
            rep['violations'].append('returns_iff: input satisfies the condition but the call raised')
        env2 = dict(env)
        env2['exc'] = ex
        for n, f in clauses(ccls, 'ensures_on_'):
            kname = n[len('ensures_on_'):].split('__')[0]
            if type(ex).__name__ == kname or any(k.__name__ == kname for k in type(ex).__mro__):
                try:
                    if not f(**clause_args(f, env2)):
                        rep['violations'].append(f'{n}: exceptional postcondition is false')
                except Exception as ex2:
                    rep['violations'].append(f'{n}: clause raised {type(ex2).__name__}: {ex2}')
        return rep
    if 'returns_iff' in pre and not pre['returns_iff']:
        rep['violations'].append('returns_iff: input violates the condition but the call returned')
    env2 = dict(env)
    env2['result'] = result
    for n, f in clauses(ccls, 'ensures'):
        if n.startswith('ensures_on_'):
            continue
        try:
            if not f(**clause_args(f, env2)):
                rep['violations'].append(f'{n}: postcondition is false')
        except Exception as ex2:
            rep['violations'].append(f'{n}: clause raised {type(ex2).__name__}: {ex2}')
    return rep


def safe_repr(x, limit: int = 400) -> str:
    try:
        r = repr(x)
    except Exception as ex:
        r = f'<unrepresentable {type(x).__name__}: {ex}>'
    return r if len(r) <= limit else r[:limit] + '...'
