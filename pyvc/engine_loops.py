"""
Loops with inductive invariants (the unbounded route; no unrolling of symbolic-length loops).

For  `for x in S: body`  with a LoopContract (invariants I over the function's locals plus the loop
index k):
    entry        : oblige I[k := 0]
    step  (path) : havoc the modified locals / heap locations / ghosts, assume 0 <= k < |S| and I[k],
                   x := S[k], execute body once, oblige I[k := k+1]; the path ends there
                   (break / return / raise inside the body leave the loop from that state)
    exit  (path) : havoc, assume I[k := |S|], continue after the loop
`while` loops are handled the same way without an index (k counts iterations).
Infinite iterators (itertools.count) have no exit path.
"""
from __future__ import annotations
import os

import ast
from typing import Any, Dict, List, Optional, Tuple

import z3

from . import smt
from .smt import Val
from .core import (BreakSig, ContinueSig, Frame, GenObj, Infeasible, PathEnd, PyRaise, ReturnSig, Unsupported)
from .index import walk_local
from .builtins_model import builtin_class


def assigned_names(stmts: List[ast.stmt]) -> List[str]:
    out: List[str] = []

    def tgt(t):
        if isinstance(t, ast.Name):
            if t.id not in out:
                out.append(t.id)
        elif isinstance(t, (ast.Tuple, ast.List)):
            for x in t.elts:
                tgt(x)
        elif isinstance(t, ast.Starred):
            tgt(t.value)

    for s in stmts:
        for n in [s] + list(walk_local(s)):
            if isinstance(n, ast.Assign):
                for t in n.targets:
                    tgt(t)
            elif isinstance(n, (ast.AugAssign, ast.AnnAssign)):
                tgt(n.target)
            elif isinstance(n, (ast.For, ast.AsyncFor)):
                tgt(n.target)
            elif isinstance(n, ast.NamedExpr):
                tgt(n.target)
            elif isinstance(n, ast.ExceptHandler) and n.name:
                if n.name not in out:
                    out.append(n.name)
            elif isinstance(n, (ast.With, ast.AsyncWith)):
                for it in n.items:
                    if it.optional_vars is not None:
                        tgt(it.optional_vars)
    return out


class LoopMixin:
    def loop_source(self, it, node):
        """(kind, payload): ('seq', SeqTerm) | ('count', start, step)"""
        so = self.static_of(it)
        if isinstance(so, GenObj):
            if so.kind == 'count':
                return ('count', so.payload[0], so.payload[1])
            if so.kind == 'reversed':
                sv = self.to_seq_val(so.payload, node)
                return ('rseq', self.get_seq(sv))
            if so.kind == 'range' and len(so.payload) == 1:
                return ('range', smt.int_of(so.payload[0]))
            if so.kind == 'dictitems':
                # `for k, v in d.items()`: the key sequence of d (fixed iteration order); the value is read from d in
                # the state of the iteration (a live view).  The loop must not change the size of d (Python raises
                # RuntimeError) - obliged where the loop is entered.
                kt = self.dict_keys_seq(so.payload)
                return ('ditems', self.get_seq(kt), so.payload, kt, self.dict_arr(so.payload))
        sv = self.to_seq_val(it, node)
        return ('seq', self.get_seq(sv))

    def loop_with_invariant(self, s, fr: Frame, lc, it):
        is_for = isinstance(s, (ast.For, ast.AsyncFor))
        src = self.loop_source(it, s.iter) if is_for else None
        ord_ = lc.ordinal
        name = f'loop{ord_}'
        kname = lc.extra.get('index', 'k')
        mods = [n for n in assigned_names(s.body) if fr.has(n)]
        if is_for:
            for n in assigned_names([ast.Assign(targets=[s.target], value=ast.Constant(value=None))]):
                if n in mods:
                    mods.remove(n)
        heap_mods = list(lc.extra.get('modifies', ()))
        ghosts = list(lc.extra.get('ghosts', ()))

        def n_of():
            if src is None or src[0] == 'count':
                return None
            if src[0] == 'range':
                return z3.If(src[1] > 0, src[1], 0)
            return z3.Length(src[1])

        def ditem(k):
            key = self.elem(src[1], k)
            pos = getattr(self, 'keypos_fn', {}).get(src[1].get_id())
            if pos is not None:
                # dict keys are pairwise distinct: the position of the k-th key is k
                self._add_axiom(z3.Implies(z3.And(k >= 0, k < z3.Length(src[1])),
                                           pos(smt.simp(smt.key_of(key))) == k))
            if self.kind_of(key) is None and self.implied(
                    z3.Implies(z3.And(k >= 0, k < z3.Length(src[1])), Val.is_str(key))):
                self.kind_hint[smt.simp(key).get_id()] = 'str'     # a fact of the path (solver-derived), kept as a hint
            val = self.dict_get(src[2], key)
            et = self.container_elem_type.get(smt.simp(src[2]).get_id())
            if et is not None and not et.startswith(('list[', 'dict[', 'ddict[')):
                # the dict is (provably, see the guard at the loop head) the one that existed on entry: its field typing
                # invariant holds for the value under the k-th key
                self._add_axiom(z3.Implies(z3.And(k >= 0, k < z3.Length(src[1])), self.type_formula(val, et)))
            return self.mk_tuple([key, val])

        def item(k):
            if src[0] == 'seq':
                return self.elem(src[1], k)
            if src[0] == 'rseq':
                return self.elem(src[1], z3.Length(src[1]) - 1 - k)
            if src[0] == 'range':
                return smt.simp(Val.int(k))
            if src[0] == 'ditems':
                return ditem(k)
            if src[0] == 'count':
                return smt.simp(Val.int(smt.int_of(src[1]) + k * smt.int_of(src[2])))
            raise Unsupported('loop source')

        xs_val = None
        if src is not None and src[0] in ('seq', 'rseq'):
            xs_val = self.alloc(builtin_class('tuple'))
            self.set_seq(xs_val, src[1])
        if src is not None and src[0] == 'ditems':
            xs_val = src[3]                 # `xs` of the invariants: the keys, in iteration order

        def env_with(k):
            env = dict(self.frame_env(fr))
            env[kname] = smt.simp(Val.int(k))
            if xs_val is not None:
                env['xs'] = xs_val
            return env

        def inv_formula(k):
            env = env_with(k)
            fs = []
            for cl in lc.invariants:
                fs.append((cl, self.clause_holds(cl, self.pick_env(cl, env))))
            return fs

        # ---- entry
        self.loop_entry = getattr(self, 'loop_entry', [])
        self.loop_entry.append((self.st.snapshot(), dict(self.frame_env(fr))))
        ct0 = getattr(self, 'current_contract', None)
        trusted = set(ct0.extra.get('assumed_clauses', ())) if ct0 is not None else set()
        for cl, f in inv_formula(z3.IntVal(0)):
            if cl.name in trusted:
                continue                # an ASSUMED loop invariant (listed in the trusted base): used, never proved
            self.oblige('invariant-entry', f'{name}: {cl.name} holds on entry', f, self.ct_props(cl.name))
        n = n_of()
        options = ['step', 'exit'] if (n is not None or not is_for) else ['step']
        which = options[self.choose([z3.BoolVal(True)] * len(options))] if len(options) > 1 else 'step'
        # ---- havoc
        for m in mods:
            v = self.fresh(f'lv_{m}')
            self.bound_ref(v)
            self._add_axiom(v != smt.ABSENT)
            fr_owner = fr
            while m not in fr_owner.locals and fr_owner.parent is not None:
                fr_owner = fr_owner.parent
            fr_owner.locals[m] = v
        env0 = self.frame_env(fr)
        for loc in heap_mods:
            self.havoc_location(loc, env0)
        for g in ghosts:
            self.havoc_ghost(g)
        k = self.fresh('k', smt.I)
        self.assume(k >= 0)
        if which == 'exit':
            if n is not None:
                self.assume(k == n)
            for cl, f in inv_formula(k):
                self.assume_checked(f)
            if not is_for:
                c = self.truthy(self.ev(s.test, fr))
                self.assume_checked(z3.Not(c))
            self.ex_block(s.orelse, fr)
            return
        # ---- one generic iteration
        if n is not None:
            self.assume(k < n)
        for cl, f in inv_formula(k):
            self.assume_checked(f)
        if is_for and src[0] == 'ditems' and not self.implied(self.dict_arr(src[2]) == src[4]):
            self.unsupported('the loop may modify the dict it iterates over', s)
        if is_for:
            self.assign(s.target, item(k), fr)
        else:
            c = self.truthy(self.ev(s.test, fr))
            self.assume_checked(c)
        try:
            self.ex_block(s.body, fr)
        except BreakSig:
            return                      # leaves the loop from this state (no else clause)
        except ContinueSig:
            pass
        if is_for and src[0] == 'ditems':
            # Python raises RuntimeError when the iterated dict changes size; the key sequence above is that of the
            # dict at loop entry - an iteration that may change the iterated dict is outside the modelled subset
            if os.environ.get('PYVC_DEBUG_DITEMS'):
                self.oblige('invariant-step', 'DEBUG iterated dict unchanged', self.dict_arr(src[2]) == src[4], ())
            elif not self.implied(self.dict_arr(src[2]) == src[4]):
                self.unsupported('the loop may modify the dict it iterates over', s)
        for cl, f in inv_formula(k + 1):
            if cl.name in trusted:
                continue
            self.oblige('invariant-step', f'{name}: {cl.name} is preserved by one iteration', f,
                        self.ct_props(cl.name))
        fh = getattr(self, 'frame_hook', None)
        if fh is not None:
            fh()                            # the writes of this generic iteration obey the frame as well
        raise PathEnd()

    def frame_env(self, fr: Frame) -> Dict[str, Any]:
        env: Dict[str, Any] = {}
        f: Optional[Frame] = fr
        chain = []
        while f is not None:
            chain.append(f)
            f = f.parent
        for f in reversed(chain):
            env.update({k: v for k, v in f.locals.items() if v is not None})
        return env

    def pick_env(self, clause, env: Dict[str, Any]) -> Dict[str, Any]:
        a = clause.node.args
        names = [x.arg for x in a.posonlyargs + a.args + a.kwonlyargs]
        missing = [n for n in names if n not in env]
        if missing:
            raise Unsupported(f'invariant {clause.qualname} refers to {missing}, not bound at the loop head')
        return {n: env[n] for n in names}

    def ct_props(self, clause_name: str):
        ct = getattr(self, 'current_contract', None)
        return ct.props_of(clause_name) if ct is not None else ()

