"""Decorator used by the sidecar contract modules.  Natively it only records the contract class
(for the run-time monitor); the verifier reads the *AST* of the sidecar module."""
REGISTRY = {}


def contract(target, props=(), also=()):
    def deco(cls):
        cls.__contract_target__ = target
        cls.__contract_props__ = tuple(props)
        for t in (target,) + tuple(also):
            REGISTRY[t] = cls
        return cls
    return deco


def lemma(props=(), types=None, pins=None):
    """a lemma over contracts: a sidecar function whose asserts are proof obligations"""
    def deco(fn):
        fn.__lemma_props__ = tuple(props)
        return fn
    return deco
