"""Statement execution mixin."""
from __future__ import annotations

import ast
from typing import Any, Dict, List, Optional, Tuple

import z3

from . import smt
from .smt import Val
from .core import (BoundBuiltin, BoundMethod, BreakSig, Builtin, Closure, ContinueSig, ExtModule, ExtObject, Frame,
                   GenObj, Infeasible, Partial, PathEnd, PyRaise, ReturnSig, Unsupported, YieldSig)
from .index import ClassInfo, FuncInfo
from .builtins_model import builtin_class

CONTROL = (PyRaise, ReturnSig, BreakSig, ContinueSig)


class StmtMixin:
    def ex_block(self, stmts: List[ast.stmt], fr: Frame) -> None:
        for s in stmts:
            self.ex(s, fr)

    def ex(self, s: ast.stmt, fr: Frame) -> None:
        meth = getattr(self, 'ex_' + type(s).__name__, None)
        if meth is None:
            self.unsupported(f'statement {type(s).__name__}', s)
        meth(s, fr)

    def ex_Pass(self, s, fr):
        pass

    def ex_Expr(self, s, fr):
        if isinstance(s.value, ast.Constant):
            return
        if isinstance(s.value, (ast.Yield, ast.YieldFrom)):
            self.do_yield(s.value, fr)
            return
        self.ev(s.value, fr)

    def ex_Return(self, s, fr):
        raise ReturnSig(self.ev(s.value, fr) if s.value is not None else smt.NONE)

    def ex_Break(self, s, fr):
        raise BreakSig()

    def ex_Continue(self, s, fr):
        raise ContinueSig()

    def ex_Global(self, s, fr):
        self.unsupported('global statement', s)

    def ex_Nonlocal(self, s, fr):
        pass

    def ex_Import(self, s, fr):
        self.unsupported('local import', s)

    def ex_Assign(self, s, fr):
        v = self.ev(s.value, fr)
        for t in s.targets:
            self.assign(t, v, fr)
        h = getattr(self, 'cut_hook', None)
        if h is not None:
            h(s, fr)

    def ex_AnnAssign(self, s, fr):
        if s.value is None:
            return
        self.assign(s.target, self.ev(s.value, fr), fr)

    def ex_AugAssign(self, s, fr):
        cur = self.ev(ast.copy_location(self._load(s.target), s), fr)
        v = self.ev(s.value, fr)
        self.assign(s.target, self.binop(s.op, cur, v, s), fr)

    def _load(self, t):
        import copy
        t2 = copy.copy(t)
        t2.ctx = ast.Load()
        return t2

    def assign(self, t: ast.expr, v, fr: Frame) -> None:
        if isinstance(t, ast.Name):
            f: Optional[Frame] = fr
            # nonlocal writes are not used by the code under contract; plain local binding
            fr.locals[t.id] = v
        elif isinstance(t, ast.Attribute):
            obj = self.ev(t.value, fr)
            self.set_attr(obj, t.attr, v, t)
        elif isinstance(t, ast.Subscript):
            obj = self.ev(t.value, fr)
            idx = self.ev(t.slice, fr)
            self.set_item(obj, idx, v, t)
        elif isinstance(t, (ast.Tuple, ast.List)):
            star_i = [i for i, x in enumerate(t.elts) if isinstance(x, ast.Starred)]
            items = self.iter_items(v, t)
            if items is None:
                if star_i and star_i[0] == len(t.elts) - 1:
                    # a, *rest = <symbolic sequence>
                    sv = self.to_seq_val(v, t)
                    s = self.get_seq(sv)
                    k = len(t.elts) - 1
                    if self.branch(z3.Length(s) < k):
                        self.raise_new('ValueError', smt.mk_str('not enough values to unpack'))
                    for i in range(k):
                        self.assign(t.elts[i], smt.simp(s[i]), fr)
                    rest = self.alloc(builtin_class('list'))
                    self.set_seq(rest, smt.simp(z3.Extract(s, z3.IntVal(k), z3.Length(s) - k)))
                    self.assign(t.elts[k].value, rest, fr)
                    return
                sv = self.to_seq_val(v, t)
                s = self.get_seq(sv)
                if not star_i:
                    if self.branch(z3.Length(s) != len(t.elts)):
                        self.raise_new('ValueError', smt.mk_str('wrong number of values to unpack'))
                    for i, x in enumerate(t.elts):
                        self.assign(x, smt.simp(s[i]), fr)
                    return
                self.unsupported('unpacking of symbolic-length sequence', t)
            if star_i:
                i = star_i[0]
                after = len(t.elts) - i - 1
                if len(items) < len(t.elts) - 1:
                    self.raise_new('ValueError', smt.mk_str('not enough values to unpack'))
                for x, it in zip(t.elts[:i], items[:i]):
                    self.assign(x, it, fr)
                mid = items[i:len(items) - after]
                self.assign(t.elts[i].value, self.mk_list(mid), fr)
                for x, it in zip(t.elts[i + 1:], items[len(items) - after:]):
                    self.assign(x, it, fr)
                return
            if len(items) != len(t.elts):
                self.raise_new('ValueError', smt.mk_str('wrong number of values to unpack'))
            for x, it in zip(t.elts, items):
                self.assign(x, it, fr)
        else:
            self.unsupported(f'assignment target {type(t).__name__}', t)

    def set_item(self, obj, idx, v, node=None) -> None:
        k = self.kind_of(obj, force=True)
        if k != 'ref':
            self.raise_new('TypeError', smt.mk_str('object does not support item assignment'))
        c = self.require_class(obj, 'item assignment target')
        if c.builtin and c.name in ('dict', 'defaultdict'):
            self.dict_set(obj, idx, v)
            return
        if c.builtin and c.name == 'list':
            s = self.get_seq(obj)
            i = smt.int_of(idx)
            n = z3.Length(s)
            if self.branch(z3.Or(i >= n, i < -n)):
                self.raise_new('IndexError', smt.mk_str('list assignment index out of range'))
            j = smt.simp(z3.If(i < 0, i + n, i))
            self.set_seq(obj, smt.simp(z3.Concat(z3.Extract(s, z3.IntVal(0), j), z3.Unit(v),
                                                 z3.Extract(s, j + 1, n - j - 1))))
            return
        if c.builtin and c.name == 'tuple':
            self.raise_new('TypeError', smt.mk_str("'tuple' object does not support item assignment"))
        lk = c.lookup('__setitem__')
        if lk and lk[0] == 'method':
            self.call_function(lk[1], [obj, idx, v], {})
            return
        self.unsupported(f'item assignment on {c.name}', node)

    def ex_Delete(self, s, fr):
        for t in s.targets:
            if isinstance(t, ast.Subscript):
                obj = self.ev(t.value, fr)
                idx = self.ev(t.slice, fr)
                c = self.require_class(obj)
                if c.builtin and c.name in ('dict', 'defaultdict'):
                    if self.branch(self.dict_get(obj, idx) == smt.ABSENT):
                        self.raise_new('KeyError', idx)
                    self.dict_del(obj, idx)
                    continue
            self.unsupported('del', s)

    def ex_If(self, s, fr):
        c = self.ev(s.test, fr)
        if self.branch(self.truthy(c)):
            self.ex_block(s.body, fr)
        else:
            self.ex_block(s.orelse, fr)

    def ex_Assert(self, s, fr):
        c = self.ev(s.test, fr)
        if not self.branch(self.truthy(c)):
            args = [self.ev(s.msg, fr)] if s.msg is not None else []
            self.raise_new('AssertionError', *args, origin=f'assert at line {s.lineno}')

    def ex_Raise(self, s, fr):
        if s.exc is None:
            if not self.exc_stack:
                self.raise_new('RuntimeError', smt.mk_str('No active exception to reraise'))
            raise PyRaise(self.exc_stack[-1], 'reraise')
        v = self.ev(s.exc, fr)
        so = self.static_of(v)
        if isinstance(so, ClassInfo):
            v = self.instantiate(so, [], {})
        if s.cause is not None:
            self.ev(s.cause, fr)
        k = self.kind_of(v, force=True)
        if k != 'ref':
            self.raise_new('TypeError', smt.mk_str('exceptions must derive from BaseException'))
        raise PyRaise(v, f'raise at line {s.lineno}')

    def ex_Try(self, s, fr):
        try:
            try:
                self.ex_block(s.body, fr)
            except PyRaise as pr:
                handled = False
                for h in s.handlers:
                    cond = z3.BoolVal(True) if h.type is None else self.exc_matches(pr.exc, h.type, fr)
                    if self.branch(cond):
                        if h.name:
                            fr.locals[h.name] = pr.exc
                        self.exc_stack.append(pr.exc)
                        try:
                            self.ex_block(h.body, fr)
                        finally:
                            self.exc_stack.pop()
                        handled = True
                        break
                if not handled:
                    raise
            else:
                self.ex_block(s.orelse, fr)
        except CONTROL:
            if s.finalbody:
                self.ex_block(s.finalbody, fr)
            raise
        else:
            if s.finalbody:
                self.ex_block(s.finalbody, fr)

    def exc_matches(self, exc, type_expr: ast.expr, fr: Frame):
        if isinstance(type_expr, ast.Tuple):
            return z3.Or(*[self.exc_matches(exc, x, fr) for x in type_expr.elts]) if type_expr.elts else z3.BoolVal(False)
        tv = self.ev(type_expr, fr)
        K = self.static_of(tv)
        if isinstance(K, ClassInfo):
            return self.isinstance_term(exc, tv)
        h = getattr(self, 'dynamic_except_hook', None)
        if h is not None:
            return h(exc, tv, type_expr)
        items = self.iter_items(tv, type_expr)
        if items is not None:
            return z3.Or(*[self.isinstance_term(exc, it) for it in items]) if items else z3.BoolVal(False)
        self.unsupported('except clause with dynamic class', type_expr)

    # ------------------------------------------------------------------ nested defs
    def ex_FunctionDef(self, s, fr):
        outer = fr.func.qualname if fr.func is not None else fr.module.name
        fi = FuncInfo(qualname=f'{outer}.<locals>.{s.name}', name=s.name, node=s, module=fr.module,
                      decorators=list(s.decorator_list))
        v = self.static_val(Closure(fi, fr, self.eval_defaults(s.args, fr)))
        for d in reversed(s.decorator_list):
            txt = ast.unparse(d).split('(')[0]
            if txt in ('ft.wraps', 'functools.wraps'):
                continue
            dv = self.ev(d, fr)
            v = self.call(dv, [v], {})
        fr.locals[s.name] = v

    ex_AsyncFunctionDef = ex_FunctionDef

    def ex_With(self, s, fr):
        self.unsupported('with statement', s)

    # ------------------------------------------------------------------ loops
    def ex_While(self, s, fr):
        inv = self.loop_contract(fr, s)
        if inv is not None:
            return self.loop_with_invariant(s, fr, inv, None)
        # bounded unrolling only when the condition is decided syntactically on every iteration
        for _ in range(64):
            c = self.truthy(self.ev(s.test, fr))
            c = smt.simp(c)
            if z3.is_false(c):
                self.ex_block(s.orelse, fr)
                return
            if not z3.is_true(c):
                self.unsupported('while loop without invariant', s)
            try:
                self.ex_block(s.body, fr)
            except BreakSig:
                return
            except ContinueSig:
                continue
        self.unsupported('while loop without invariant (unroll limit)', s)

    def ex_For(self, s, fr):
        it = self.ev(s.iter, fr)
        items = self.iter_items(it, s.iter)
        if items is not None:
            for x in items:
                self.assign(s.target, x, fr)
                try:
                    self.ex_block(s.body, fr)
                except BreakSig:
                    return
                except ContinueSig:
                    continue
            self.ex_block(s.orelse, fr)
            return
        inv = self.loop_contract(fr, s)
        if inv is None:
            tmpl = self.loop_template(s, fr, it)
            if tmpl:
                return
            self.unsupported('for loop over symbolic-length iterable without invariant', s)
        return self.loop_with_invariant(s, fr, inv, it)

    ex_AsyncFor = ex_For

    def loop_contract(self, fr: Frame, node):
        lc = getattr(self, 'loop_contracts', None)
        if not lc or fr.func is None:
            return None
        return lc.get((fr.func.qualname, self.loop_ordinal(fr.func, node)))

    def loop_ordinal(self, fi: FuncInfo, node) -> int:
        loops = [n for n in ast.walk(fi.node) if isinstance(n, (ast.For, ast.While, ast.AsyncFor))]
        loops.sort(key=lambda n: (n.lineno, n.col_offset))
        for i, n in enumerate(loops):
            if n is node:
                return i
        return -1

    def loop_template(self, s, fr, it) -> bool:
        return False

    def loop_with_invariant(self, s, fr, inv, it):
        self.unsupported('loop invariants not yet available', s)
