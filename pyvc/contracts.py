"""
Contract objects, loaded from the AST of the sidecar modules under /verif/contracts.

A contract is a class decorated with @contract('<module>:<qualname>', props=[...]):

    types        = {'param': <type spec>}     typing of parameters (assumed on entry, proved at call sites)
    pins         = {'param': '<module>:<qualname>'}   parameter is this very class / function object
    def requires*(...)                        preconditions (spec expressions over the parameters)
    def callsite_requires*(...)               protocol conditions proved at the library's own call sites only
    comp_<name> = {'elt_contains': text, 'has_if': bool}; def comp_<name>__source(..., xs) / __keeps(..., x) /
                 __element(..., x, y)             obligations on the matching comprehension of the body: the iterated
                                              sequence, the filter condition (equivalence, generic element) and the
                                              produced element (relation to its source element, generic element)
    cut<N> = {'after_assign': name, 'value_contains': text}; def cut<N>_*(...locals...)
                                              intermediate assertion proved right after the matching assignment
    def ensures*(..., result)                 postconditions of a normal return
    def returns_iff(...)                      returns normally  <=>  condition (else raises one of raises_only)
    raises_only  = ('<class>', ...)           the only exception classes that may escape
    def raises_<Class>_iff(...)               (optional) exactly when <Class> escapes
    def ensures_on_<Class>(..., exc)          exceptional postcondition
    result_type  = <type spec>                typing of the result (assumed at call sites, proved on return)
    modifies     = ('self._ids', ...)         frame: heap locations that may change
    assumed      = True                       dependency contract: used at call sites, never proved

Type specs: 'json' | 'any' | 'str' | 'int' | 'bool' | 'none' | 'callable' | 'object' |
            '<module>:<Class>' (instance of class or subclass) | '=<module>:<Class>' (exact class) |
            'type<=<module>:<Class>' (a class object, subclass of) | 'opt:<spec>' (None or spec) |
            'list' | 'dict' | 'tuple' | 'seq:<spec>' ...
"""
from __future__ import annotations

import ast
from dataclasses import dataclass, field
from typing import Any, Dict, List, Optional, Tuple

from .index import ClassInfo, FuncInfo, Index


@dataclass
class Contract:
    target: str
    name: str
    module: str
    props: Tuple[str, ...] = ()
    types: Dict[str, str] = field(default_factory=dict)
    pins: Dict[str, str] = field(default_factory=dict)
    requires: List[FuncInfo] = field(default_factory=list)
    ensures: List[FuncInfo] = field(default_factory=list)
    returns_iff: Optional[FuncInfo] = None
    raises_only: Tuple[str, ...] = ()
    raises_iff: Dict[str, FuncInfo] = field(default_factory=dict)
    ensures_on: Dict[str, List[FuncInfo]] = field(default_factory=dict)
    result_type: Optional[str] = None
    result_fresh: bool = False
    modifies: Tuple[str, ...] = ()
    assumed: bool = False
    also: Tuple[str, ...] = ()             # further targets sharing this very contract (sync/async twins)
    clause_props: Dict[str, Tuple[str, ...]] = field(default_factory=dict)
    ghost: Dict[str, Any] = field(default_factory=dict)
    extra: Dict[str, Any] = field(default_factory=dict)
    invariants: Dict[int, 'LoopContract'] = field(default_factory=dict)

    def props_of(self, clause: str) -> Tuple[str, ...]:
        return self.clause_props.get(clause, self.props)


@dataclass
class LoopContract:
    ordinal: int
    invariants: List[FuncInfo]
    modifies_locals: Tuple[str, ...] = ()
    extra: Dict[str, Any] = field(default_factory=dict)


def _literal(e: ast.expr):
    try:
        return ast.literal_eval(e)
    except Exception:
        return None


def load_contracts(index: Index, module_names: List[str]) -> Dict[str, Contract]:
    out: Dict[str, Contract] = {}
    for mn in module_names:
        m = index.modules[mn]
        # lemmas: plain functions decorated with @lemma(...) - verified like any function against the
        # trivial contract "never raises" (a failing `assert` in the body is an escaping AssertionError)
        for fname, fi in m.functions.items():
            for d in fi.decorators:
                if isinstance(d, ast.Call) and ast.unparse(d.func).split('.')[-1] == 'lemma':
                    kw = {k.arg: _literal(k.value) for k in d.keywords}
                    ct = Contract(target=fi.qualname, name=fname, module=mn, props=tuple(kw.get('props') or ()),
                                  types=dict(kw.get('types') or {}), pins=dict(kw.get('pins') or {}))
                    ct.extra['lemma'] = True
                    ct.extra['cross_check'] = False
                    out[fi.qualname] = ct
        for cname, c in m.classes.items():
            deco = None
            for d in c.node.decorator_list:
                if isinstance(d, ast.Call) and ast.unparse(d.func).split('.')[-1] == 'contract':
                    deco = d
            if deco is None:
                continue
            target = _literal(deco.args[0])
            kw = {k.arg: _literal(k.value) for k in deco.keywords}
            ct = Contract(target=target, name=cname, module=mn, props=tuple(kw.get('props') or ()),
                          also=tuple(kw.get('also') or ()))
            for an, ae in c.attrs.items():
                val = _literal(ae)
                if an == 'types':
                    ct.types = dict(val)
                elif an == 'pins':
                    ct.pins = dict(val)
                elif an == 'raises_only':
                    ct.raises_only = tuple(val)
                elif an == 'result_type':
                    ct.result_type = val
                elif an == 'result_fresh':
                    ct.result_fresh = bool(val)
                elif an == 'modifies':
                    ct.modifies = tuple(val)
                elif an == 'assumed':
                    ct.assumed = bool(val)
                elif an == 'clause_props':
                    ct.clause_props = {k: tuple(v) for k, v in val.items()}
                elif an == 'ghost':
                    ct.ghost = dict(val)
                else:
                    ct.extra[an] = val
            for fname, fi in c.methods.items():
                if fname.startswith('callsite_requires'):
                    ct.extra.setdefault('callsite_requires', []).append(fi)
                elif fname.startswith('requires'):
                    ct.requires.append(fi)
                elif fname == 'returns_iff':
                    ct.returns_iff = fi
                elif fname.startswith('raises_') and fname.endswith('_iff'):
                    ct.raises_iff[fname[len('raises_'):-len('_iff')]] = fi
                elif fname.startswith('ensures_on_'):
                    rest = fname[len('ensures_on_'):]
                    k = rest.split('__')[0]
                    ct.ensures_on.setdefault(k, []).append(fi)
                elif fname.startswith('ensures'):
                    ct.ensures.append(fi)
                elif fname.startswith('comp_') and '__' in fname:
                    # comp_<name>__source / __keeps / __element: obligations on the comprehension matched by the class
                    # attribute comp_<name> = {'elt_contains': text, 'has_if': bool}
                    cname, what = fname[len('comp_'):].split('__', 1)
                    ct.extra.setdefault('comp_clauses', {}).setdefault(cname, {}).setdefault(what, []).append(fi)
                elif fname.startswith('cut') and fname[3:4].isdigit():
                    # cut<N>_*: an intermediate assertion at the program point described by the class attribute cut<N>
                    digits = ''
                    for ch in fname[3:]:
                        if ch.isdigit():
                            digits += ch
                        else:
                            break
                    ct.extra.setdefault('cut_clauses', {}).setdefault(int(digits), []).append(fi)
                elif fname.startswith('invariant'):
                    # invariant<N>[_suffix]: loop ordinal N
                    digits = ''
                    for ch in fname[len('invariant'):]:
                        if ch.isdigit():
                            digits += ch
                        else:
                            break
                    n = int(digits or '0')
                    lc = ct.invariants.setdefault(n, LoopContract(ordinal=n, invariants=[]))
                    lc.invariants.append(fi)
            for n, lc in ct.invariants.items():
                lc.extra = ct.extra.get(f'loop{n}', {}) or {}
            for t in (target,) + ct.also:
                out[t] = ct
    return out
