"""Replays a solver model against the REAL function under the native contract monitor."""
from __future__ import annotations

import importlib
import inspect
import traceback
from typing import Any, Dict, List, Optional

import z3

from .concretize import Concretizer, Unrealisable, import_qualname
from .monitor import run_checked, safe_repr
from .index import FuncInfo
from .contracts import Contract


def native_contract(ct: Contract):
    mod = importlib.import_module(ct.module)
    return getattr(mod, ct.name)


def build_call(fi: FuncInfo, env: Dict[str, Any]):
    """returns a thunk invoking the real function with the concretised arguments"""
    a = fi.node.args
    pos = [x.arg for x in a.posonlyargs + a.args]
    if fi.cls is not None and fi.kind in ('method', 'classmethod', 'property'):
        recv = env[pos[0]]
        if fi.kind == 'property':
            return lambda: getattr(recv, fi.name)
        target = getattr(recv, fi.name)
        pos = pos[1:]
    else:
        target = import_qualname(fi.qualname)
    args = [env[p] for p in pos]
    if a.vararg is not None:
        args.extend(env[a.vararg.arg])
    kwargs = {p.arg: env[p.arg] for p in a.kwonlyargs}
    if a.kwarg is not None:
        kwargs.update(env[a.kwarg.arg])

    def thunk():
        r = target(*args, **kwargs)
        if inspect.iscoroutine(r):
            import asyncio
            return asyncio.new_event_loop().run_until_complete(r)
        return r
    return thunk


def replay(engine, fi: FuncInfo, ct: Contract, model: z3.ModelRef, info: Dict[str, Any]) -> Dict[str, Any]:
    out: Dict[str, Any] = {'function': fi.qualname, 'contract': f'{ct.module}:{ct.name}'}
    try:
        conc = Concretizer(engine, model, info['old'], info['dict_probes'], info['attr_reads'], info['statics'])
        env = {n: conc.val(v) for n, v in info['params'].items()}
        out['inputs'] = {n: safe_repr(v) for n, v in env.items()}
    except Unrealisable as u:
        out['status'] = 'unrealisable'
        out['detail'] = str(u)
        return out
    except Exception as ex:
        out['status'] = 'concretizer-error'
        out['detail'] = traceback.format_exc()
        return out
    restore = lambda: None
    try:
        restore = conc.install_globals()
        ccls = native_contract(ct)
        rep = run_checked(ccls, None, env, build_call(fi, env))
    except Unrealisable as u:
        out['status'] = 'unrealisable'
        out['detail'] = str(u)
        return out
    except Exception:
        out['status'] = 'replay-error'
        out['detail'] = traceback.format_exc()
        return out
    finally:
        restore()
    out.update(rep)
    if rep['outcome'] in ('precondition-not-met', 'contract-error'):
        out['status'] = rep['outcome']
    else:
        out['status'] = 'violation-reproduced' if rep['violations'] else 'not-reproduced'
    return out
