"""
SMT-level value model of Python used by the VC generator (DESIGN.md §3.1).

    Val ::= none | absent | bool(b) | int(i) | flt(f: Real) | str(s) | ref(r: Int)

`absent` is an engine-internal marker ("no such dict member / attribute not set"); it is never a
Python value.  References are integers: ids < 0 are *static* objects (classes, functions, module
singletons), 0 <= id < FRESH_BASE pre-existing heap objects, ids >= FRESH_BASE objects allocated
during the analysed call.
"""
from __future__ import annotations

import z3

FRESH_BASE = 1_000_000

_Val = z3.Datatype('Val')
_Val.declare('none')
_Val.declare('absent')
_Val.declare('bool', ('b', z3.BoolSort()))
_Val.declare('int', ('i', z3.IntSort()))
_Val.declare('flt', ('f', z3.RealSort()))
_Val.declare('str', ('s', z3.StringSort()))
_Val.declare('ref', ('r', z3.IntSort()))
Val = _Val.create()

SeqV = z3.SeqSort(Val)
DictV = z3.ArraySort(Val, Val)
I = z3.IntSort()

NONE = Val.none
ABSENT = Val.absent
TRUE = Val.bool(z3.BoolVal(True))
FALSE = Val.bool(z3.BoolVal(False))

# immutable, global: class of a reference; subclass relation over class ids
cls_of = z3.Function('cls_of', I, I)
sub = z3.Function('sub', I, I, z3.BoolSort())
# uninterpreted helpers
isjson = z3.Function('isjson', Val, z3.BoolSort())        # deep: the value was JSON on entry
deep_eq = z3.Function('deep_eq', Val, Val, z3.BoolSort())
pystr = z3.Function('pystr', Val, z3.StringSort())          # str(v) for non-str v
pyrepr = z3.Function('pyrepr', Val, z3.StringSort())
rpow = z3.Function('rpow', z3.RealSort(), z3.RealSort(), z3.RealSort())
elem_at = z3.Function('elem_at', SeqV, I, Val)          # element read; equals seq.nth inside the bounds
str_lower = z3.Function('str_lower', z3.StringSort(), z3.StringSort())


# z3 AST ids are only stable while the term is alive; the engine keys several side tables (class hints,
# element types, index terms...) by term id, so every simplified term is kept alive for the current path.
KEEP = []


def simp(e):
    r = z3.simplify(e)
    KEEP.append(r)
    return r


def mk_int(i):
    if isinstance(i, int):
        i = z3.IntVal(i)
    return Val.int(i)


def mk_str(s):
    if isinstance(s, str):
        s = z3.StringVal(s)
    return Val.str(s)


def mk_bool(b):
    if isinstance(b, bool):
        b = z3.BoolVal(b)
    return Val.bool(b)


def mk_flt(f):
    if isinstance(f, (int, float)):
        f = z3.RealVal(repr(f) if isinstance(f, float) else f)
    return Val.flt(f)


def mk_ref(r):
    if isinstance(r, int):
        r = z3.IntVal(r)
    return Val.ref(r)


def is_num(v):
    return z3.Or(Val.is_bool(v), Val.is_int(v), Val.is_flt(v))


def is_intlike(v):
    """isinstance(v, int) in Python: bool is a subclass of int"""
    return z3.Or(Val.is_bool(v), Val.is_int(v))


def int_of(v):
    """integer value of an int-like Val (bool -> 0/1)"""
    return z3.If(Val.is_bool(v), z3.If(Val.b(v), z3.IntVal(1), z3.IntVal(0)), Val.i(v))


def num_of(v):
    """real value of a numeric Val"""
    return z3.If(Val.is_flt(v), Val.f(v), z3.ToReal(int_of(v)))


def key_of(v):
    """normalisation under Python's hash/== classes: True == 1 == 1.0 are one dict key"""
    return z3.If(Val.is_bool(v), Val.int(int_of(v)),
                 z3.If(z3.And(Val.is_flt(v), z3.IsInt(Val.f(v))), Val.int(z3.ToInt(Val.f(v))), v))


def py_eq(a, b):
    """Python == on JSON-like values (objects with __eq__ are handled by the engine before this)"""
    both_num = z3.And(is_num(a), is_num(b))
    # fast path for pure ints keeps the arithmetic linear-integer
    both_int = z3.And(is_intlike(a), is_intlike(b))
    return z3.If(both_int, int_of(a) == int_of(b),
                 z3.If(both_num, num_of(a) == num_of(b),
                       z3.If(z3.And(Val.is_str(a), Val.is_str(b)), Val.s(a) == Val.s(b),
                             z3.If(z3.And(Val.is_none(a), Val.is_none(b)), z3.BoolVal(True),
                                   z3.If(z3.And(Val.is_ref(a), Val.is_ref(b)),
                                         z3.Or(a == b, deep_eq(a, b)), z3.BoolVal(False))))))


def static_id(e):
    """if e simplifies to ref(<numeral>) return the numeral else None"""
    e = simp(e)
    if z3.is_app(e) and e.decl().name() == 'ref' and e.num_args() == 1:
        a = e.arg(0)
        if z3.is_int_value(a):
            return a.as_long()
    return None


def const_str(e):
    e = simp(e)
    if z3.is_app(e) and e.decl().name() == 'str' and e.num_args() == 1 and z3.is_string_value(e.arg(0)):
        return e.arg(0).as_string()
    return None


def const_int(e):
    e = simp(e)
    if z3.is_app(e) and e.decl().name() == 'int' and e.num_args() == 1 and z3.is_int_value(e.arg(0)):
        return e.arg(0).as_long()
    return None


def tag_of(e):
    """constructor name if syntactically determined else None"""
    e = simp(e)
    if z3.is_app(e) and e.sort() == Val:
        n = e.decl().name()
        if n in ('none', 'absent', 'bool', 'int', 'flt', 'str', 'ref'):
            return n
    return None
