"""Expression evaluation mixin."""
from __future__ import annotations

import ast
from typing import Any, Dict, List, Optional, Tuple

import z3

from . import smt
from .smt import Val
from .core import (BoundBuiltin, BoundMethod, Builtin, Closure, ExtModule, ExtObject, Frame, GenObj, Infeasible,
                   Partial, PropertyObj, PyRaise, ReturnSig, Unsupported)
from .index import ClassInfo, FuncInfo, ModuleInfo
from .builtins_model import builtin_class
from .engine import BUILTIN_FUNCS, EXT_MODULES

EXT_CLASSES = {
    'json.JSONDecodeError': 'JSONDecodeError', 'json.decoder.JSONDecodeError': 'JSONDecodeError',
    'asyncio.CancelledError': 'CancelledError', 'types.SimpleNamespace': 'SimpleNamespace',
    'collections.defaultdict': 'defaultdict', 'jsonschema.ValidationError': 'JsonSchemaValidationError',
    'pydantic.ValidationError': 'PydanticValidationError', 'uuid.UUID': 'UUID',
    'werkzeug.exceptions.HTTPException': 'HTTPException',
    'werkzeug.exceptions.UnsupportedMediaType': 'HTTPUnsupportedMediaType',
    'werkzeug.exceptions.BadRequest': 'HTTPBadRequest',
    'aiohttp.web.HTTPUnsupportedMediaType': 'HTTPUnsupportedMediaType',
    'aiohttp.web.HTTPBadRequest': 'HTTPBadRequest',
    'aiohttp.web.HTTPException': 'HTTPException',
}

# process-global objects of external frameworks, modelled as opaque objects of an abstract class
EXT_GLOBAL_OBJECTS = {
    'flask.request': 'ExtHttpRequest',
}

BUILTIN_DECLARED = {
    'UserCallable': {'__name__'},
    'BaseException': {'args'},
    'iterator': {'$src', '$pos'},
    'ExtHttpRequest': {'content_type', 'mimetype', 'is_json'},
    'ExtHttpResponse': {'status', 'body', 'content_type'},
    'UserClientObject': {'_endpoint'},
}


class ExprMixin:
    # ==================================================================================== names
    def lookup_name(self, name: str, fr: Frame, node=None):
        if fr.has(name):
            v = fr.lookup(name)
            if v is None:
                self.raise_new('NameError', smt.mk_str(name))
            return v
        g = self.module_global(fr.module, name)
        if g is not None:
            return g
        if fr.is_spec and self.spec_index is not None:
            pass
        b = self.builtin_name(name)
        if b is not None:
            return b
        self.unsupported(f'unresolved name {name}', node)

    def builtin_name(self, name: str):
        if name in ('int', 'str', 'bool', 'float', 'list', 'dict', 'tuple', 'set', 'frozenset', 'object', 'type'):
            return smt.mk_ref(builtin_class(name).cid)
        c = builtin_class(name)
        if c is not None and c.is_subclass(builtin_class('BaseException')):
            return smt.mk_ref(c.cid)
        if name in BUILTIN_FUNCS:
            return self.static_val(Builtin(name), key=f'builtin:{name}')
        if name in ('__package__', '__name__'):
            return smt.mk_str('pjrpc')
        if name == 'NotImplemented':
            return self.static_val(ExtObject('NotImplemented'), key='NotImplemented')
        return None

    def module_global(self, m: ModuleInfo, name: str):
        if m is None:
            return None
        r = self.index.module_attr(m, name)
        if r is None and self.spec_index is not None and m.name in self.spec_index.modules:
            r = self.spec_index.module_attr(m, name)
        return self.index_obj_to_val(r, (m.name, name))

    def index_obj_to_val(self, r, key):
        if r is None:
            return None
        if isinstance(r, FuncInfo):
            return self.func_val(r)
        if isinstance(r, ClassInfo):
            return smt.mk_ref(r.cid)
        if isinstance(r, ModuleInfo):
            return self.static_val(r, key=f'mod:{r.name}')
        if isinstance(r, tuple):
            if r[0] == 'extmod':
                return self.static_val(ExtModule(r[1]), key=f'ext:{r[1]}')
            if r[0] == 'ext':
                modname, _, attr = r[1].partition(':')
                return self.ext_attr(modname, attr)
            if r[0] == 'const':
                return self.module_const(r[1], key[1] if r[1].name == key[0] else self._const_name(r), r[2])
        self.unsupported(f'cannot resolve {key}')

    def _const_name(self, r):
        m, expr = r[1], r[2]
        for n, e in m.assigns.items():
            if e is expr:
                return n
        return '?'

    def func_val(self, fi: FuncInfo):
        """module-level function / undecorated method as a first-class value"""
        key = f'func:{fi.qualname}'
        if key in self.static_ids:
            return smt.mk_ref(self.static_ids[key])
        return self.static_val(Closure(fi, None), key=key)

    def ext_attr(self, modname: str, attr: str):
        dotted = f'{modname}.{attr}'
        if dotted in EXT_CLASSES:
            return smt.mk_ref(builtin_class(EXT_CLASSES[dotted]).cid)
        if dotted in EXT_GLOBAL_OBJECTS:
            K = builtin_class(EXT_GLOBAL_OBJECTS[dotted])
            v = self.static_val(('global', modname, attr), key=f'global:{modname}:{attr}')
            self.use_class(K)
            self._add_axiom(smt.cls_of(smt.static_id(v)) == K.cid)
            self.known_cls[smt.simp(v).get_id()] = K
            self.old_terms.add(smt.simp(v).get_id())
            aci = getattr(self, 'assume_class_invariant', None)
            if aci is not None:
                aci(v, K.name)
            return v
        if dotted in EXT_MODULES or modname in EXT_MODULES and attr in ('exceptions', 'web', 'json', 'mock', 'decoder'):
            return self.static_val(ExtModule(dotted), key=f'ext:{dotted}')
        return self.static_val(Builtin(dotted), key=f'builtin:{dotted}')

    def module_const(self, m: ModuleInfo, name: str, expr: ast.expr):
        ck = ('const', m.name, name)
        if ck in self.global_cache:
            hit = self.global_cache[ck]
            if self.alloc_is_live(hit):
                return hit
            # allocated while another state was installed (old(), a rolled-back sub-path): its cells are not in
            # this heap.  Module-level literals are immutable constants (assumed), so evaluate again.
        v = None
        if isinstance(expr, ast.Call):
            tgt = self.index.resolve_expr_static(m, expr.func)
            if isinstance(tgt, ClassInfo):
                # module-level singleton instance: pre-existing object with a stable static id
                v = self.static_val(('global', m.name, name), key=f'global:{m.name}:{name}')
                sid = smt.static_id(v)
                self.use_class(tgt)
                self._add_axiom(smt.cls_of(sid) == tgt.cid)
                self.known_cls[smt.simp(v).get_id()] = tgt
        if v is None:
            fr = Frame(None, m)
            v = self.ev(expr, fr)
        self.global_cache[ck] = v
        return v

    def alloc_is_live(self, v) -> bool:
        r = smt.simp(Val.r(v)) if smt.simp(v).decl().name() == 'ref' else None
        if r is None or not z3.is_int_value(r) or r.as_long() < smt.FRESH_BASE:
            return True
        for arr in (self.st.seq, self.st.dct):
            a = arr
            while z3.is_app(a) and a.decl().kind() == z3.Z3_OP_STORE:
                if smt.simp(a.arg(1)).eq(r):
                    return True
                a = a.arg(0)
        c = self.class_of(v)
        return not (c is not None and c.builtin and c.name in ('list', 'tuple', 'dict', 'set', 'frozenset'))

    # ==================================================================================== dispatcher
    def ev(self, e: ast.expr, fr: Frame):
        meth = getattr(self, 'ev_' + type(e).__name__, None)
        if meth is None:
            self.unsupported(f'expression {type(e).__name__}', e)
        return meth(e, fr)

    def ev_Constant(self, e, fr):
        v = e.value
        if v is None:
            return smt.NONE
        if v is True or v is False:
            return smt.mk_bool(v)
        if isinstance(v, int):
            return smt.mk_int(v)
        if isinstance(v, float):
            return smt.mk_flt(v)
        if isinstance(v, str):
            return smt.mk_str(v)
        if v is Ellipsis:
            return self.static_val(ExtObject('Ellipsis'), key='Ellipsis')
        self.unsupported(f'constant {v!r}', e)

    def ev_Name(self, e, fr):
        return self.lookup_name(e.id, fr, e)

    def ev_NamedExpr(self, e, fr):
        v = self.ev(e.value, fr)
        fr.locals[e.target.id] = v
        return v

    def ev_JoinedStr(self, e, fr):
        parts = []
        for p in e.values:
            if isinstance(p, ast.Constant):
                parts.append(z3.StringVal(p.value))
            else:
                v = self.ev(p.value, fr)
                if p.conversion == ord('r'):
                    parts.append(smt.pyrepr(v))
                else:
                    parts.append(self.str_of(v))
        if not parts:
            return smt.mk_str('')
        s = parts[0]
        for p in parts[1:]:
            s = z3.Concat(s, p)
        return smt.simp(Val.str(s))

    def str_of(self, v):
        """z3 String for str(v)"""
        t = self.kind_of(v)
        if t == 'str':
            return Val.s(v)
        if t is None:
            return z3.If(Val.is_str(v), Val.s(v), smt.pystr(v))
        return smt.pystr(v)

    def ev_Tuple(self, e, fr):
        items = self.ev_elts(e.elts, fr)
        return self.mk_tuple(items)

    def ev_List(self, e, fr):
        items = self.ev_elts(e.elts, fr)
        return self.mk_list(items)

    def ev_elts(self, elts, fr) -> List[Any]:
        items: List[Any] = []
        for x in elts:
            if isinstance(x, ast.Starred):
                sv = self.ev(x.value, fr)
                its = self.iter_items(sv, x)
                if its is None:
                    self.unsupported('starred element of symbolic length', x)
                items.extend(its)
            else:
                items.append(self.ev(x, fr))
        return items

    def ev_Set(self, e, fr):
        items = [self.ev(x, fr) for x in e.elts]
        return self.mk_set(items)

    def ev_Dict(self, e, fr):
        d = self.mk_dict([])
        for k, v in zip(e.keys, e.values):
            if k is None:
                src = self.ev(v, fr)
                self.dict_update_from(d, src, v)
            else:
                kv = self.ev(k, fr)
                vv = self.ev(v, fr)
                self.dict_set(d, kv, vv)
        return d

    def ev_IfExp(self, e, fr):
        c = self.ev(e.test, fr)
        if self.branch(self.truthy(c)):
            return self.ev(e.body, fr)
        return self.ev(e.orelse, fr)

    def ev_Lambda(self, e, fr):
        fi = FuncInfo(qualname=f'{self.current_func}.<lambda>@{e.lineno}', name='<lambda>', node=e, module=fr.module)
        return self.static_val(Closure(fi, fr, self.eval_defaults(e.args, fr)))

    def eval_defaults(self, args: ast.arguments, fr: Frame) -> Dict[str, Any]:
        out: Dict[str, Any] = {}
        pos = args.posonlyargs + args.args
        for a, d in zip(pos[len(pos) - len(args.defaults):], args.defaults):
            out[a.arg] = self.ev(d, fr)
        for a, d in zip(args.kwonlyargs, args.kw_defaults):
            if d is not None:
                out[a.arg] = self.ev(d, fr)
        return out

    def ev_Await(self, e, fr):
        v = self.ev(e.value, fr)
        return self.await_value(v, e)

    def await_value(self, v, node=None):
        # await-erasure: coroutine calls were evaluated at the call; oracle coroutines resolve here
        h = getattr(self, 'await_hook', None)
        if h is not None:
            return h(v)
        return v

    def ev_Starred(self, e, fr):
        self.unsupported('starred expression outside call/display', e)

    # ==================================================================================== bool / compare
    def is_simple(self, e: ast.expr) -> bool:
        """evaluation cannot raise, fork or have effects: safe to merge with If-terms"""
        if isinstance(e, ast.Constant):
            return True
        if isinstance(e, ast.Name):
            return True
        return False

    def ev_BoolOp(self, e, fr):
        is_and = isinstance(e.op, ast.And)
        v = self.ev(e.values[0], fr)
        for nxt in e.values[1:]:
            t = self.truthy(v)
            go_on = t if is_and else z3.Not(t)
            if self.is_simple(nxt) and not z3.is_true(smt.simp(go_on)) and not z3.is_false(smt.simp(go_on)):
                w = self.ev(nxt, fr)
                v = smt.simp(z3.If(go_on, w, v))
                continue
            if False and fr.is_spec and self.sub_depth > 0:
                merged = self.merge_operand(go_on, nxt, fr, v, is_and)
                if merged is not None:
                    v = merged
                    continue
            if self.branch(go_on):
                v = self.ev(nxt, fr)
            else:
                return v
        return v

    def merge_operand(self, go_on, nxt, fr, v, is_and=True):
        """pure spec code: value of `nxt` under the assumption go_on, merged with v by an If-term (no solver call
        for the short-circuit itself); None when the operand can raise (then the caller forks as usual)"""
        def thunk():
            self.assume(go_on)
            return self.ev(nxt, fr)
        rs = self.sub_explore(thunk, pure=True)
        if any(k == 'raise' for _, k, _, _ in rs):
            return None
        if not rs:
            return v
        if smt.tag_of(v) == 'bool' and all(smt.tag_of(w) == 'bool' for _, _, w, _ in rs):
            # boolean operands: keep the conjunctive / disjunctive structure (facts can be learned from it)
            bv = smt.simp(Val.b(v))
            rest = z3.Or(*[z3.And(g, Val.b(smt.simp(w))) for g, _, w, _ in rs])
            # the guards of rs all contain go_on
            return smt.simp(Val.bool(z3.And(bv, rest) if is_and else z3.Or(bv, rest)))
        out = v
        for guard, _, w, _ in reversed(rs):
            out = z3.If(guard, w, out)
        return smt.simp(out)

    def ev_UnaryOp(self, e, fr):
        v = self.ev(e.operand, fr)
        if isinstance(e.op, ast.Not):
            return self.to_val_bool(z3.Not(self.truthy(v)))
        if isinstance(e.op, ast.USub):
            k = self.kind_of(v, force=True)
            if k in ('int', 'bool'):
                return smt.simp(Val.int(-smt.int_of(v)))
            if k == 'flt':
                return smt.simp(Val.flt(-Val.f(v)))
        self.unsupported('unary op', e)

    def ev_Compare(self, e, fr):
        left = self.ev(e.left, fr)
        result = None
        for op, right_e in zip(e.ops, e.comparators):
            right = self.ev(right_e, fr)
            b = self.compare(op, left, right, e)
            if result is None:
                result = b
            else:
                result = z3.And(result, b)
            if len(e.ops) > 1:
                if not self.branch(b):
                    return smt.FALSE
                result = z3.BoolVal(True)
            left = right
        return self.to_val_bool(result)

    def compare(self, op, a, b, node=None):
        if isinstance(op, ast.Is):
            return smt.simp(a == b)
        if isinstance(op, ast.IsNot):
            return smt.simp(a != b)
        if isinstance(op, ast.Eq):
            return self.py_eq(a, b)
        if isinstance(op, ast.NotEq):
            return smt.simp(z3.Not(self.py_eq(a, b)))
        if isinstance(op, ast.In):
            return self.contains(b, a, node)
        if isinstance(op, ast.NotIn):
            return smt.simp(z3.Not(self.contains(b, a, node)))
        if isinstance(op, (ast.Lt, ast.LtE, ast.Gt, ast.GtE)):
            ka, kb = self.kind_of(a), self.kind_of(b)
            if ka is None:
                ka = self.num_kind_or_fork(a)
            if kb is None:
                kb = self.num_kind_or_fork(b)
            if ka in ('int', 'bool') and kb in ('int', 'bool'):
                x, y = smt.int_of(a), smt.int_of(b)
            elif ka in ('int', 'bool', 'flt') and kb in ('int', 'bool', 'flt'):
                x, y = smt.num_of(a), smt.num_of(b)
            else:
                if ka == 'none' or kb == 'none':
                    self.raise_new('TypeError', smt.mk_str('unorderable'))
                self.unsupported(f'ordering comparison on {ka}/{kb}', node)
            return smt.simp({ast.Lt: x < y, ast.LtE: x <= y, ast.Gt: x > y, ast.GtE: x >= y}[type(op)])
        self.unsupported(f'comparison {type(op).__name__}', node)

    def num_kind_or_fork(self, v):
        k = self.kind_of(v, force=True)
        return k

    def py_eq(self, a, b):
        """z3 Bool for a == b; objects of repo classes with __eq__ dispatch to it"""
        for x, y in ((a, b), (b, a)):
            c = self.class_of(x)
            if c is not None and not c.builtin:
                lk = c.lookup('__eq__')
                if lk and lk[0] == 'method':
                    res = self.call_function(lk[1], [x, y], {})
                    so = self.static_of(res)
                    if isinstance(so, ExtObject) and so.name == 'NotImplemented':
                        return smt.simp(x == y)
                    return self.truthy(res)
        return smt.simp(smt.py_eq(a, b))

    def contains(self, container, item, node=None):
        so = self.static_of(container)
        k = self.kind_of(container, force=True)
        if k == 'str':
            if self.kind_of(item, force=True) != 'str':
                self.raise_new('TypeError', smt.mk_str('in <string> requires string'))
            return smt.simp(z3.Contains(Val.s(container), Val.s(item)))
        if k != 'ref':
            self.raise_new('TypeError', smt.mk_str('argument is not iterable'))
        c = self.require_class(container, 'container of `in`')
        if c.builtin and c.name in ('dict', 'defaultdict', 'set', 'frozenset'):
            return smt.simp(self.dict_get(container, item) != smt.ABSENT)
        if c.builtin and c.name in ('list', 'tuple'):
            items = self.seq_items(self.get_seq(container))
            if items is not None:
                if not items:
                    return z3.BoolVal(False)
                return smt.simp(z3.Or(*[self.py_eq(item, it) for it in items]))
            s = self.get_seq(container)
            ik = self.kind_of(item)
            if ik in ('str', 'int', 'none'):
                # scalar membership: exact for sequences of scalars of the same kind (documented)
                return smt.simp(z3.Contains(s, z3.Unit(item)))
            self.unsupported('membership in symbolic-length sequence', node)
        lk = c.lookup('__contains__')
        if lk and lk[0] == 'method':
            return self.truthy(self.call_function(lk[1], [container, item], {}))
        self.unsupported(f'`in` on {c.name}', node)

    # ==================================================================================== arithmetic
    def ev_BinOp(self, e, fr):
        a = self.ev(e.left, fr)
        b = self.ev(e.right, fr)
        return self.binop(e.op, a, b, e)

    def binop(self, op, a, b, node=None):
        ka, kb = self.kind_of(a, force=True), self.kind_of(b, force=True)
        num = ('int', 'bool', 'flt')
        if isinstance(op, ast.Add):
            if ka == 'str' and kb == 'str':
                return smt.simp(Val.str(z3.Concat(Val.s(a), Val.s(b))))
            if ka == 'ref' and kb == 'ref':
                ca, cb = self.require_class(a), self.require_class(b)
                if ca.name == cb.name and ca.name in ('list', 'tuple'):
                    r = self.alloc(ca)
                    self.set_seq(r, z3.Concat(self.get_seq(a), self.get_seq(b)))
                    return r
        if ka in num and kb in num:
            both_int = ka != 'flt' and kb != 'flt'
            if both_int:
                x, y = smt.int_of(a), smt.int_of(b)
                if isinstance(op, ast.Add):
                    return smt.simp(Val.int(x + y))
                if isinstance(op, ast.Sub):
                    return smt.simp(Val.int(x - y))
                if isinstance(op, ast.Mult):
                    return smt.simp(Val.int(x * y))
                if isinstance(op, ast.Pow):
                    return smt.simp(Val.flt(smt.rpow(z3.ToReal(x), z3.ToReal(y)))) if True else None
            x, y = smt.num_of(a), smt.num_of(b)
            if isinstance(op, ast.Add):
                return smt.simp(Val.flt(x + y))
            if isinstance(op, ast.Sub):
                return smt.simp(Val.flt(x - y))
            if isinstance(op, ast.Mult):
                return smt.simp(Val.flt(x * y))
            if isinstance(op, ast.Pow):
                return smt.simp(Val.flt(smt.rpow(x, y)))
            if isinstance(op, ast.Div):
                if self.branch(y == 0):
                    self.raise_new('ZeroDivisionError', smt.mk_str('division by zero'))
                return smt.simp(Val.flt(x / y))
        if isinstance(op, ast.Add) or isinstance(op, ast.Sub) or isinstance(op, ast.Mult):
            if ka == 'none' or kb == 'none':
                self.raise_new('TypeError', smt.mk_str('unsupported operand'))
        self.unsupported(f'binary op {type(op).__name__} on {ka}/{kb}', node)

    # ==================================================================================== attribute / subscript
    def ev_Attribute(self, e, fr):
        obj = self.ev(e.value, fr)
        return self.get_attr(obj, e.attr, e)

    def ev_Subscript(self, e, fr):
        obj = self.ev(e.value, fr)
        if isinstance(e.slice, ast.Slice):
            return self.get_slice(obj, e.slice, fr, e)
        idx = self.ev(e.slice, fr)
        return self.get_item(obj, idx, e)

    def get_item(self, obj, idx, node=None):
        so = self.static_of(obj)
        if so is not None:
            if isinstance(so, (ClassInfo, ExtObject, Builtin)):
                return obj          # generic alias such as Dispatcher[None]
            self.unsupported('subscript of static object', node)
        k = self.kind_of(obj, force=True)
        if k == 'str':
            self.unsupported('string indexing', node)
        if k != 'ref':
            self.raise_new('TypeError', smt.mk_str('object is not subscriptable'))
        c = self.require_class(obj, 'subscripted object')
        if c.builtin and c.name in ('dict',):
            v = self.dict_get(obj, idx)
            if self.branch(v == smt.ABSENT):
                self.raise_new('KeyError', idx)
            return v
        if c.builtin and c.name == 'defaultdict':
            return self.defaultdict_getitem(obj, idx, node)
        if c.builtin and c.name in ('list', 'tuple'):
            s = self.get_seq(obj)
            ik = self.kind_of(idx, force=True)
            if ik not in ('int', 'bool'):
                self.raise_new('TypeError', smt.mk_str('indices must be integers'))
            i = smt.int_of(idx)
            n = z3.Length(s)
            if self.branch(z3.Or(i >= n, i < -n)):
                self.raise_new('IndexError', smt.mk_str('index out of range'))
            j = smt.simp(z3.If(i < 0, i + n, i))
            v = self.nth(s, j)
            if not z3.is_int_value(j) or not z3.is_int_value(smt.simp(n)):
                self.note_index(s, j)
            self.bound_ref(v)
            et = self.seq_elem_type.get(smt.simp(s).get_id())
            if et is not None:
                self._add_axiom(self.type_formula(v, et))
            self.json_closed(obj, v)
            return v
        lk = c.lookup('__getitem__')
        if lk and lk[0] == 'method':
            return self.call_function(lk[1], [obj, idx], {})
        self.unsupported(f'subscript on {c.name}', node)

    def get_slice(self, obj, sl: ast.Slice, fr, node=None):
        k = self.kind_of(obj, force=True)
        lo = self.ev(sl.lower, fr) if sl.lower is not None else None
        hi = self.ev(sl.upper, fr) if sl.upper is not None else None
        if sl.step is not None:
            self.unsupported('slice step', node)
        if k == 'str':
            s = Val.s(obj)
            n = z3.Length(s)
            a = self.norm_index(lo, n, 0)
            b = self.norm_index(hi, n, None)
            return smt.simp(Val.str(z3.SubString(s, a, z3.If(b - a > 0, b - a, 0))))
        c = self.require_class(obj)
        if c.builtin and c.name in ('list', 'tuple'):
            s = self.get_seq(obj)
            n = z3.Length(s)
            a = self.norm_index(lo, n, 0)
            b = self.norm_index(hi, n, None)
            r = self.alloc(c)
            self.set_seq(r, smt.simp(z3.Extract(s, a, z3.If(b - a > 0, b - a, 0))))
            return r
        self.unsupported('slice', node)

    def norm_index(self, v, n, default):
        if v is None or smt.tag_of(v) == 'none':
            return z3.IntVal(0) if default == 0 else n
        i = smt.int_of(v)
        i = z3.If(i < 0, z3.If(i + n < 0, 0, i + n), z3.If(i > n, n, i))
        return smt.simp(i)
