"""
Path management: decisions, feasibility, assumptions, obligations, allocation, class facts.
"""
from __future__ import annotations

import os
import time
from typing import Any, Dict, List, Optional, Tuple

import z3

from . import smt
from .smt import Val
from .core import (Infeasible, Obligation, State, Unsupported)
from .index import ClassInfo, FuncInfo, Index
from .builtins_model import all_builtin_classes, builtin_class

SOLVER_TIMEOUT_MS = 10_000


class PathMgr:
    def __init__(self, index: Index):
        self.index = index
        # ---- static object table (stable part: classes, functions) ----
        self.static_objs: Dict[int, Any] = {}
        self.static_ids: Dict[Any, int] = {}
        self._next_static = -1
        self._next_global = 900_000
        self.classes: List[ClassInfo] = []
        for c in all_builtin_classes():
            self._register_class(c)
        for m in index.modules.values():
            for c in m.classes.values():
                self._register_class_rec(c)
        self._stable_static = self._next_static
        self._mro_cache: Dict[int, set] = {}
        # per-verification-task
        self.pending: List[List[int]] = []
        self.fast_feasibility = False
        self.stats = dict(paths=0, branches=0, feas_checks=0, solver_s=0.0, obligations=0)
        self.site_counts: Dict[str, int] = {}
        self.obligations: List[Obligation] = []
        self.current_func = ''
        self.reset_path([])

    # ------------------------------------------------------------------ statics
    def _register_class(self, c: ClassInfo) -> None:
        c.cid = self._next_static
        self.static_objs[c.cid] = c
        self.static_ids[c.qualname] = c.cid
        self._next_static -= 1
        self.classes.append(c)

    def _register_class_rec(self, c: ClassInfo) -> None:
        self._register_class(c)
        for ic in c.inner.values():
            self._register_class_rec(ic)

    def static_val(self, obj: Any, key: Any = None):
        """Val for a static object; `key` makes the id stable (FuncInfo qualname, module name...)"""
        if isinstance(obj, ClassInfo):
            return smt.mk_ref(obj.cid)
        if key is not None and key in self.static_ids:
            return smt.mk_ref(self.static_ids[key])
        if key is not None and isinstance(key, str) and key.startswith('global:'):
            # process-global *instances* are ordinary pre-existing heap objects with a stable id
            sid = self._next_global
            self._next_global += 1
            self.static_ids[key] = sid
            self.static_objs[sid] = obj
            return smt.mk_ref(sid)
        if key is not None:
            sid = self._next_static
            self._next_static -= 1
            self._stable_static = self._next_static
            self.static_ids[key] = sid
            self.static_objs[sid] = obj
            return smt.mk_ref(sid)
        sid = self.path_next_static
        self.path_next_static -= 1
        self.path_statics[sid] = obj
        return smt.mk_ref(sid)

    def static_of(self, v):
        sid = smt.static_id(v)
        if sid is None:
            eq = self.eq_static.get(smt.simp(v).get_id())
            if eq is not None:
                sid = smt.static_id(eq)
        if sid is None or sid >= 0:
            return None
        if sid in self.path_statics:
            return self.path_statics[sid]
        return self.static_objs.get(sid)

    def cls_val(self, name: str):
        c = builtin_class(name)
        assert c is not None, name
        return smt.mk_ref(c.cid)

    # ------------------------------------------------------------------ path lifecycle
    def reset_path(self, decisions: List[int]) -> None:
        del smt.KEEP[:]
        self.decisions: List[int] = list(decisions)
        self.pos = 0
        self.pc: List[Any] = []
        self.pc_axiom: List[bool] = []
        self.alloc_cls: Dict[int, ClassInfo] = {}
        self.bounded: set = set()
        self.sub_bases: List[int] = []
        self.hint_alt: Dict[int, List[ClassInfo]] = {}
        self.merged_dicts: Dict[int, Any] = {}
        self.base_facts: Dict[int, Any] = {}
        self.classobj_cands: List[Any] = []
        self._tupkeys: Dict[int, Any] = {}
        self.ddict_factory: Dict[int, str] = {}
        self.elem_cls: Dict[int, Any] = {}
        self.not_classobj: set = set()
        self.cls_cache: Dict[int, Any] = {}       # term id -> (pc length it was derived under, class, exact)
        self.canon_map: Dict[int, Any] = {}
        self.lazy_branching = False
        self.model_cache: List[Any] = []
        self.eq_static: Dict[int, Any] = {}
        self.callable_candidates: List[Any] = []
        self.old_terms: set = set()
        self.kind_hint: Dict[int, str] = {}
        self.sub_depth = 0
        self.st = State()
        self.old: Optional[State] = None
        self.next_ref = smt.FRESH_BASE
        self.fresh_refs: List[int] = []
        self.path_statics: Dict[int, Any] = {}
        self.path_next_static = -1_000_000
        self.known_cls: Dict[int, ClassInfo] = {}      # z3 term id -> exact class
        self.hint_cls: Dict[int, ClassInfo] = {}       # z3 term id -> upper bound
        self.isinst_terms: Dict[int, Tuple[Any, ClassInfo]] = {}
        self.classes_used: set = set()
        self.fresh_counter = 0
        self.dict_probes: List[Tuple[Any, Any]] = []   # (ref id term, key term) on the *initial* dict heap
        self.attr_reads: List[Tuple[str, Any]] = []
        self.global_cache: Dict[Any, Any] = {}
        self.writes: List[Tuple[str, Any, str]] = []   # (field, ref id term, where)
        self.solver = z3.Solver()
        self.solver.set('timeout', 300 if self.fast_feasibility else 600)
        self._solver_bg = 0
        self._bg_n = 0
        self._bg_set: set = set()
        self._bg_facts: List[Any] = []
        self._bg_done: set = set()
        self.log: List[str] = []
        self.oracle_events: List[Any] = []

    def fresh(self, prefix: str, sort=None):
        self.fresh_counter += 1
        return z3.Const(f'{prefix}!{self.fresh_counter}', sort if sort is not None else Val)

    # ------------------------------------------------------------------ class facts
    def use_class(self, c: ClassInfo) -> None:
        if c.cid not in self.classes_used:
            self.classes_used.add(c.cid)
            for b in c.mro():
                self.classes_used.add(b.cid)

    def background(self) -> List[Any]:
        """ground facts of the subclass relation for the classes touched on this path (cached, grown
        incrementally as classes are touched)"""
        used = self.classes_used
        if len(used) != self._bg_n:
            new = [c for c in used if c not in self._bg_set]
            for a in new:
                self._bg_set.add(a)
            allc = sorted(self._bg_set)
            for a in allc:
                mro_a = self._mro_ids(a)
                for b in (allc if a in new else new):
                    self._bg_facts.append(smt.sub(a, b) if b in mro_a else z3.Not(smt.sub(a, b)))
            self._bg_n = len(used)
        return self._bg_facts

    def _mro_ids(self, cid: int):
        m = self._mro_cache.get(cid)
        if m is None:
            m = {b.cid for b in self.static_objs[cid].mro()}
            self._mro_cache[cid] = m
        return m

    def sub_term(self, cid_term, K: ClassInfo):
        """z3 Bool: class id term is a subclass of K"""
        self.use_class(K)
        cid_term = smt.simp(cid_term)
        if z3.is_int_value(cid_term):
            c = self.static_objs.get(cid_term.as_long())
            if isinstance(c, ClassInfo):
                return z3.BoolVal(c.is_subclass(K))
        return smt.sub(cid_term, z3.IntVal(K.cid))

    def assume_sub(self, cid_term, K: ClassInfo) -> None:
        """assume class id is a subclass of K (and, transitively, of K's bases)"""
        for b in K.mro():
            self.assume(self.sub_term(cid_term, b))

    # ------------------------------------------------------------------ solver plumbing
    def _sync_solver(self) -> z3.Solver:
        """incremental per-path solver: pc conjuncts are asserted once as they arise (_add_pc); subclass
        facts are flushed for classes touched since the last call"""
        s = self.solver
        bg = self.background()
        if len(bg) > self._solver_bg:
            s.add(*bg[self._solver_bg:])
            self._solver_bg = len(bg)
        return s

    def feasible(self, extra=None) -> bool:
        # model cache: a recent model of the pc that also satisfies `extra` proves feasibility without a
        # solver call ("infeasible" is only ever concluded by the solver)
        if extra is not None:
            for m in self.model_cache:
                try:
                    if z3.is_true(m.eval(extra, model_completion=True)):
                        self.stats['model_hits'] = self.stats.get('model_hits', 0) + 1
                        return True
                except z3.Z3Exception:
                    pass
        elif self.model_cache:
            return True
        self.stats['feas_checks'] += 1
        if os.environ.get('PYVC_SITES'):
            import traceback
            fr = [f'{f.name}:{f.lineno}' for f in traceback.extract_stack(limit=9)[:-1]]
            key = ' < '.join(reversed(fr[-6:]))
            self.site_counts[key] = self.site_counts.get(key, 0) + 1
        t = time.time()
        s = self._sync_solver()
        if extra is not None:
            s.push()
            s.add(extra)
        if os.environ.get('PYVC_DUMP'):
            with open(os.environ['PYVC_DUMP'], 'w') as fh:
                fh.write(s.to_smt2())
        r = s.check()
        mdl = None
        if r == z3.sat:
            mdl = s.model()
        if extra is not None:
            s.pop()
        if r == z3.unknown and not self.fast_feasibility:
            # z3's incremental core gives up on queries its one-shot pipeline decides
            s2 = z3.Solver()
            s2.set('timeout', 8000)
            s2.add(*self.background())
            s2.add(*self.pc)
            if extra is not None:
                s2.add(extra)
            r = s2.check()
            self.stats['fresh_fallbacks'] = self.stats.get('fresh_fallbacks', 0) + 1
            if r == z3.sat:
                mdl = s2.model()
        # with fast_feasibility (heavy batch functions) `unknown` within the short budget counts as feasible:
        # only quick UNSAT answers prune (an infeasible path merely yields vacuously discharged obligations)
        if mdl is not None:
            self.model_cache.append(mdl)
            if len(self.model_cache) > 6:
                self.model_cache.pop(0)
        dt = time.time() - t
        self.stats['solver_s'] += dt
        if dt > 2.0:
            self.stats['slow_checks'] = self.stats.get('slow_checks', 0) + 1
            if os.environ.get('PYVC_SLOWDUMP'):
                s2 = z3.Solver()
                s2.add(*self.background()); s2.add(*self.pc)
                if extra is not None:
                    s2.add(extra)
                n = self.stats['slow_checks']
                with open(f"{os.environ['PYVC_SLOWDUMP']}.{n}.smt2", 'w') as fh:
                    fh.write(s2.to_smt2())
            if os.environ.get('PYVC_DEBUG'):
                print(f'SLOW feasibility check {dt:.1f}s result={r} extra={str(extra)[:300]}', flush=True)
        return r != z3.unsat

    def feasible_precise(self, extra) -> bool:
        """feasibility with a generous budget (fresh one-shot solver): used where a wrong 'feasible' would make
        the function unsupported rather than merely cost an extra path"""
        if not self.feasible(extra):
            return False
        s2 = z3.Solver()
        s2.set('timeout', 30000)
        s2.add(*self.background())
        s2.add(*self.pc)
        s2.add(extra)
        t = time.time()
        r = s2.check()
        if os.environ.get('PYVC_DEBUG'):
            print(f'[precise] {r} in {time.time() - t:.1f}s', flush=True)
        return r != z3.unsat

    def implied_by_axioms(self, cond) -> bool:
        """axioms of the path (facts valid in every execution: typing, heap well-formedness, instantiated universals,
        callee postconditions) |= cond, without the guards of the current sub-path"""
        s = z3.Solver()
        s.set('timeout', 3000)
        s.add(*self.background())
        s.add(*[c for c, ax in zip(self.pc, self.pc_axiom) if ax])
        s.add(z3.Not(smt.simp(cond)))
        return s.check() == z3.unsat

    def implied(self, cond) -> bool:
        """pc |= cond (solver-decided; unknown counts as not implied)"""
        c = smt.simp(cond)
        if z3.is_true(c):
            return True
        if z3.is_false(c):
            return False
        for m in self.model_cache:
            try:
                if z3.is_false(m.eval(c, model_completion=True)):
                    self.stats['model_hits'] = self.stats.get('model_hits', 0) + 1
                    return False
            except z3.Z3Exception:
                pass
        self.stats['feas_checks'] += 1
        t = time.time()
        s = self._sync_solver()
        s.push()
        s.add(z3.Not(c))
        r = s.check()
        if r == z3.sat:
            try:
                self.model_cache.append(s.model())
                if len(self.model_cache) > 6:
                    self.model_cache.pop(0)
            except z3.Z3Exception:
                pass
        s.pop()
        self.stats['solver_s'] += time.time() - t
        return r == z3.unsat

    # ------------------------------------------------------------------ decisions
    def choose(self, guards: List[Any]) -> int:
        """n-way fork: returns the index of the option taken on this path; guards are z3 Bools
        (already mutually exclusive or not — the chosen guard is added to the pc)."""
        gs = [smt.simp(g) for g in guards]
        live = [i for i, g in enumerate(gs) if not z3.is_false(g)]
        if not live:
            raise Infeasible()
        if len(live) == 1 and z3.is_true(gs[live[0]]):
            return live[0]
        if self.pos < len(self.decisions):
            d = self.decisions[self.pos]
        else:
            if False and getattr(self, 'summarising', False) and len(live) == 2:
                # inside a merged (pure) clause: both sides are explored without asking the solver; an
                # infeasible side only contributes an unsatisfiable disjunct to the merged formula
                feas = live
            else:
                feas = [i for i in live if self.feasible(gs[i])]
            if not feas:
                raise Infeasible()
            d = feas[0]
            for alt in feas[1:]:
                alt_prefix = self.decisions[:self.pos] + [alt]
                sink = getattr(self, 'pending_sink', None)
                if sink is not None and self.sub_depth == 0:
                    sink(alt_prefix)          # hand the alternative to the scheduler at once (other cores)
                else:
                    self.pending.append(alt_prefix)
            self.decisions.append(d)
            self.stats['branches'] += 1
        self.pos += 1
        self._add_pc(gs[d])
        return d

    def branch(self, cond) -> bool:
        c = smt.simp(cond)
        if z3.is_true(c):
            return True
        if z3.is_false(c):
            return False
        return self.choose([c, z3.Not(c)]) == 0

    def _add_pc(self, c, axiom: bool = False) -> None:
        c = smt.simp(c)
        if z3.is_true(c):
            return
        self.pc.append(c)
        self.pc_axiom.append(axiom)
        self.solver.add(c)
        if self.model_cache:
            keep = []
            for m in self.model_cache:
                try:
                    if z3.is_true(m.eval(c, model_completion=True)):
                        keep.append(m)
                except z3.Z3Exception:
                    pass
            self.model_cache = keep
        self._learn(c)

    def _add_axiom(self, c) -> None:
        """a fact valid in every execution (well-formedness of the heap model, class of an allocation...):
        it survives sub-explorations and is never part of a merged guard"""
        self._add_pc(c, axiom=True)

    # ------------------------------------------------------------------ sub-exploration (merging)
    def sub_explore(self, thunk, pure: bool = False):
        """Enumerate every sub-path of thunk() from the current state and return
        [(guard, kind, value, state_after)], kind in {'ret','raise'}; the current path is left as it was,
        plus the axioms the sub-paths produced.  Used to evaluate pure spec / contract clauses into ONE
        formula instead of forking the enclosing path."""
        from .core import PyRaise, Infeasible
        base = len(self.pc)
        saved_st = self.st.snapshot()
        saved = (self.decisions, self.pos, self.pending, dict(self.known_cls), dict(self.hint_cls),
                 self._solver_bg, set(self._bg_done), set(self.classes_used), len(self.dict_probes),
                 len(self.attr_reads), self.depth, list(self.exc_stack), len(self.writes))
        learnt = (dict(self.known_cls), dict(self.hint_cls), dict(self.canon_map), dict(self.eq_static),
                  dict(self.kind_hint))
        cache_keys = set(self.global_cache)
        sub_pending = [[]]
        results = []
        axioms = []
        entry_ref = self.next_ref
        keep_st = None
        seen_ax: set = set()
        self.sub_depth += 1
        self.sub_bases.append(base)
        try:
            while sub_pending:
                dec = sub_pending.pop()
                self.decisions, self.pos, self.pending = list(dec), 0, sub_pending
                self.solver.push()
                bg_mark = self._solver_bg
                try:
                    try:
                        v = thunk()
                        kind = 'ret'
                    except PyRaise as pr:
                        v, kind = pr.exc, 'raise'
                    guard = [c for c, ax in zip(self.pc[base:], self.pc_axiom[base:]) if not ax]
                    results.append((z3.And(*guard) if guard else z3.BoolVal(True), kind, v, self.st.snapshot()))
                except Infeasible:
                    pass
                finally:
                    new_ax = [c for c, ax in zip(self.pc[base:], self.pc_axiom[base:]) if ax]
                    self.solver.pop()
                    self._solver_bg = bg_mark
                    del self.pc[base:]
                    del self.pc_axiom[base:]
                    # class bounds the solver derived under guards that are gone now are not valid any more
                    for tid in [t for t, h in self.cls_cache.items() if h[0] > base]:
                        del self.cls_cache[tid]
                    # whatever was learnt from the GUARDS of this sub-path (exact classes, canonical terms,
                    # static equalities) holds on this sub-path only
                    self.known_cls, self.hint_cls = dict(learnt[0]), dict(learnt[1])
                    self.canon_map, self.eq_static = dict(learnt[2]), dict(learnt[3])
                    self.kind_hint = dict(learnt[4])
                    # axioms are valid on every path: keep them for the sibling sub-paths and the caller
                    for c in new_ax:
                        if c.get_id() not in seen_ax:
                            seen_ax.add(c.get_id())
                            self._add_pc(c, axiom=True)
                    learnt = (dict(self.known_cls), dict(self.hint_cls), dict(self.canon_map), dict(self.eq_static),
                              dict(self.kind_hint))
                    base = len(self.pc)
                    if pure:
                        # a pure clause only writes cells of objects it allocated itself: keep those stores
                        for fld, ref, _ in self.writes[saved[12]:]:
                            rr = smt.simp(ref)
                            if not (z3.is_int_value(rr) and rr.as_long() >= entry_ref):
                                from .core import Unsupported
                                raise Unsupported(f'pure clause writes to a pre-existing object ({fld})')
                        keep_st = self.st.snapshot()
                        keep_st.ghost = dict(saved_st.ghost)
                        saved_st = keep_st
                    self.st.restore(saved_st)
                    if not pure:
                        # objects allocated by the sub-path are gone with its heap: forget cached references
                        for gk in [gk for gk in self.global_cache if gk not in cache_keys]:
                            del self.global_cache[gk]
                    self.depth, self.exc_stack = saved[10], list(saved[11])
                    del self.writes[saved[12]:]
        finally:
            self.sub_depth -= 1
            self.sub_bases.pop()
            self.decisions, self.pos, self.pending = saved[0], saved[1], saved[2]
        return results

    def merged_truth(self, thunk, what: str = '', assuming=None):
        """z3 Bool: thunk() (a pure clause) evaluates to a truthy value; a raising sub-path makes the
        clause ill-defined -> Unsupported"""
        from .core import Unsupported
        lb = self.lazy_branching
        self.lazy_branching = True
        try:
            rs = self.sub_explore(thunk, pure=True)
        finally:
            self.lazy_branching = lb
        disj = []
        for guard, kind, v, _ in rs:
            if kind == 'raise':
                c = self.class_of(v)
                if self.feasible(guard if assuming is None else z3.And(guard, assuming)):
                    raise Unsupported(f'clause {what} can raise {c.name if c else "?"}')
                continue
            disj.append(z3.And(guard, v))
        if not disj:
            return z3.BoolVal(False)
        return smt.simp(z3.Or(*disj))

    @staticmethod
    def _flat_conj(d):
        out, todo = [], [d]
        while todo:
            y = todo.pop()
            if z3.is_and(y):
                todo.extend(y.children())
            else:
                out.append(y)
        return out

    def _learn(self, c) -> None:
        """record class hints from isinstance facts that became part of the pc"""
        todo = [c]
        while todo:
            x = todo.pop()
            if z3.is_and(x):
                todo.extend(x.children())
                continue
            if z3.is_or(x) and x.num_args() <= 16:
                # a merged clause Or(And(..), And(..)): what every disjunct states holds
                common = None
                for d in x.children():
                    cs = {c.get_id(): c for c in (self._flat_conj(d))}
                    common = cs if common is None else {i: c for i, c in common.items() if i in cs}
                    if not common:
                        break
                if common:
                    todo.extend(common.values())
                continue
            if z3.is_eq(x) and x.arg(0).sort() == smt.I:
                # cls_of(r(t)) == <class id>: exact class of t
                for a, b in ((x.arg(0), x.arg(1)), (x.arg(1), x.arg(0))):
                    if z3.is_int_value(b) and z3.is_app(a) and a.decl().name() == 'cls_of' and \
                            z3.is_app(a.arg(0)) and a.arg(0).decl().name() == 'r':
                        K = self.static_objs.get(b.as_long())
                        if isinstance(K, ClassInfo):
                            self.known_cls[a.arg(0).arg(0).get_id()] = K
            if z3.is_eq(x) and x.arg(0).sort() == Val:
                for a, b in ((x.arg(0), x.arg(1)), (x.arg(1), x.arg(0))):
                    # a havoc / fresh constant assumed equal to a term: reads are canonicalised to the term
                    if z3.is_const(a) and a.decl().kind() == z3.Z3_OP_UNINTERPRETED and '!' in a.decl().name() \
                            and not (z3.is_const(b) and '!' in b.decl().name()) and a.get_id() not in self.canon_map:
                        self.canon_map[a.get_id()] = b
                for a, b in ((x.arg(0), x.arg(1)), (x.arg(1), x.arg(0))):
                    sid = smt.static_id(b)
                    if sid is not None and sid < 0 and smt.static_id(a) is None:
                        self.eq_static[a.get_id()] = b
            hit = self.isinst_terms.get(x.get_id())
            if hit is not None:
                term, K = hit
                tid = smt.simp(term).get_id()
                prev = self.hint_cls.get(tid)
                if prev is None or K.is_subclass(prev):
                    self.hint_cls[tid] = K
                elif not prev.is_subclass(K):
                    self.hint_alt.setdefault(tid, []).append(K)      # instance of two unrelated library classes

    def assume(self, cond) -> None:
        c = smt.simp(cond)
        if z3.is_true(c):
            return
        if z3.is_false(c):
            raise Infeasible()
        self._add_pc(c)

    def assume_checked(self, cond) -> None:
        self.assume(cond)
        if not self.feasible():
            raise Infeasible()

    # ------------------------------------------------------------------ obligations
    def oblige(self, kind: str, text: str, goal, props=(), info=None) -> bool:
        """record + discharge an obligation under the current pc; afterwards the goal is assumed."""
        g = smt.simp(goal)
        self.stats['obligations'] += 1
        tag = getattr(self, 'path_tag', '')
        oid = f'{self.current_func}#{kind}#{tag + "/" if tag else ""}{len(self.obligations)}'
        ob = Obligation(oid=oid, func=self.current_func, kind=kind, text=text, pc=list(self.pc), goal=g,
                        props=tuple(props), decisions=tuple(self.decisions[:self.pos]), info=dict(info or {}))
        self.obligations.append(ob)
        t = time.time()
        if z3.is_true(g):
            ob.verdict, ob.backend = 'discharged', 'simplifier'
        elif os.environ.get('PYVC_DEBUG_SKIP_OBLIGATIONS'):
            ob.verdict, ob.backend = 'unknown', 'skipped (debug run)'       # never a pass: debugging aid only
            ob.info['reason'] = 'skipped'
        else:
            s = z3.Solver()
            s.set('timeout', SOLVER_TIMEOUT_MS)
            s.add(*self.background())
            s.add(*self.pc)
            s.add(z3.Not(g))
            r = s.check()
            ob.backend = 'z3'
            if r == z3.unsat:
                ob.verdict = 'discharged'
            elif r == z3.sat:
                ob.verdict = 'failed'
                ob.model = s.model()
                ob.info['bg'] = self.background()
            else:
                ob.verdict = 'unknown'
                ob.info['reason'] = s.reason_unknown()
                ob.info['smt2'] = s.to_smt2()
        ob.ms = (time.time() - t) * 1000
        self.stats['solver_s'] += time.time() - t
        ok = ob.verdict == 'discharged'
        if not ok:
            self.on_failed_obligation(ob)
        # continue under the assumption that it holds
        self.assume_checked(g)
        return ok

    def on_failed_obligation(self, ob: Obligation) -> None:
        pass

    # ------------------------------------------------------------------ heap
    def attr_array(self, name: str):
        a = self.st.attrs.get(name)
        if a is None:
            a = z3.Array(f'H_attr_{name}', smt.I, Val)
            for r in self.fresh_refs:
                a = z3.Store(a, r, smt.ABSENT)
            self.st.attrs[name] = a
        return a

    def alloc(self, c: ClassInfo):
        r = self.next_ref
        self.next_ref += 1
        self.fresh_refs.append(r)
        for n in list(self.st.attrs):
            self.st.attrs[n] = z3.Store(self.st.attrs[n], r, smt.ABSENT)
        self.use_class(c)
        self._add_axiom(smt.cls_of(r) == c.cid)
        v = smt.mk_ref(r)
        self.known_cls[smt.simp(v).get_id()] = c
        self.alloc_cls[r] = c
        return v

    def alloc_symbolic_class(self, cid_term):
        """fresh object whose class id is a symbolic term"""
        r = self.next_ref
        self.next_ref += 1
        self.fresh_refs.append(r)
        for n in list(self.st.attrs):
            self.st.attrs[n] = z3.Store(self.st.attrs[n], r, smt.ABSENT)
        self._add_axiom(smt.cls_of(r) == cid_term)
        return smt.mk_ref(r)

    def bound_ref(self, v) -> None:
        """any reference read from the heap / received as input existed before or was allocated
        by this path: its id is below the allocation counter (keeps fresh objects unaliased)."""
        if smt.static_id(v) is not None:
            return
        sv = smt.simp(v)
        if sv.get_id() in self.bounded:
            return
        self.bounded.add(sv.get_id())
        if self.next_ref == smt.FRESH_BASE or self.is_initial_heap_read(sv):
            # inputs and whatever the entry heap references existed before the call
            self.old_terms.add(sv.get_id())
            self._add_axiom(z3.Implies(Val.is_ref(v), Val.r(v) < smt.FRESH_BASE))
            # ids from 900000 up are process-global objects: an input is one of those only if it IS one that this
            # path knows (UNSET, a class-level registry ...), never an arbitrary object squatting on such an id
            gids = sorted({sid for _, sid in getattr(self, 'singletons', [])} |
                          {i for i in self.static_ids.values() if isinstance(i, int) and i >= 900_000})
            self._add_axiom(z3.Implies(z3.And(Val.is_ref(v), Val.r(v) >= 900_000),
                                       z3.Or(*[Val.r(v) == g for g in gids]) if gids else z3.BoolVal(False)))
        for K, sid in getattr(self, 'singletons', []):
            self.use_class(K)
            self._add_axiom(z3.Implies(z3.And(Val.is_ref(v), self.sub_term(smt.cls_of(Val.r(v)), K)), Val.r(v) == sid))
        T, F = builtin_class('type'), builtin_class('function')
        self.use_class(T)
        self.use_class(F)
        r = Val.r(v)
        self._add_axiom(z3.Implies(Val.is_ref(v), z3.And(r < self.next_ref, z3.Implies(
            r < 0, z3.Or(smt.cls_of(r) == T.cid, smt.cls_of(r) == F.cid)))))

    def is_initial_heap_read(self, v) -> bool:
        """v is a read of the heap as it was on entry: Select(H_x, ..) / Select(Select(H_dict, ..), ..) / nth(H_seq[..], ..)"""
        if not z3.is_app(v):
            return False
        k = v.decl().kind()
        if k == z3.Z3_OP_SELECT:
            a = v.arg(0)
            if z3.is_app(a) and a.decl().kind() == z3.Z3_OP_SELECT:
                a = a.arg(0)
            return z3.is_const(a) and a.decl().kind() == z3.Z3_OP_UNINTERPRETED and a.decl().name().startswith('H_')
        if k == z3.Z3_OP_SEQ_NTH or (k == z3.Z3_OP_UNINTERPRETED and v.decl().name() == 'elem_at'):
            a = v.arg(0)
            return z3.is_app(a) and a.decl().kind() == z3.Z3_OP_SELECT and z3.is_const(a.arg(0)) \
                and a.arg(0).decl().name() == 'H_seq'
        return False

    def canon(self, v):
        m = self.canon_map.get(smt.simp(v).get_id())
        return m if m is not None else v

    def is_old(self, v) -> bool:
        return smt.simp(v).get_id() in self.old_terms

    def strip_fresh(self, arr):
        """array as seen from a pre-existing object: stores at freshly allocated ids cannot affect it"""
        while z3.is_app(arr) and arr.decl().kind() == z3.Z3_OP_STORE:
            idx = smt.simp(arr.arg(1))
            if z3.is_int_value(idx) and idx.as_long() >= smt.FRESH_BASE:
                arr = arr.arg(0)
            else:
                break
        return arr

    def class_of(self, v) -> Optional[ClassInfo]:
        """exact or upper-bound class known for a Val (no solver call)"""
        sv = smt.simp(v)
        tid = sv.get_id()
        if tid in self.known_cls:
            return self.known_cls[tid]
        sid = smt.static_id(sv)
        if sid is not None and sid in self.alloc_cls:
            return self.alloc_cls[sid]
        if tid in self.hint_cls:
            return self.hint_cls[tid]
        if tid in self.elem_cls:
            return self.elem_cls[tid]           # element of a typed sequence (typing axiom is guarded by the range)
        t = smt.tag_of(sv) or self.kind_hint.get(tid)
        if t == 'str':
            return builtin_class('str')
        if t == 'int':
            return builtin_class('int')
        if t == 'bool':
            return builtin_class('bool')
        if t == 'flt':
            return builtin_class('float')
        if t == 'none':
            return builtin_class('NoneType')
        return None

    def set_class(self, v, c: ClassInfo, exact: bool = True) -> None:
        tid = smt.simp(v).get_id()
        (self.known_cls if exact else self.hint_cls)[tid] = c
        self.use_class(c)
