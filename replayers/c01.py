"""Native witness search for failed obligations of the server-side chain (C01 / C02 / C03; run with the repo on
PYTHONPATH): a corpus of request texts is dispatched through the real Dispatcher / AsyncDispatcher with a small registry
and the replies are judged against the property statements.  NOT part of the proof - it only tries to attach a concrete
failing input to a violation the contracts found.   usage: c01.py <Dispatcher|AsyncDispatcher|all>; prints JSON."""
import asyncio
import json
import sys

import pjrpc
import pjrpc.server

RAN = []


def ok(a=1):
    RAN.append('ok')
    return {'a': a}


def app_error():
    RAN.append('app_error')
    raise pjrpc.exc.InvalidParamsError(data='nope')


def crash():
    RAN.append('crash')
    raise ZeroDivisionError('x')


def R(id=..., method='ok', params=..., **extra):
    d = {'jsonrpc': '2.0', 'method': method}
    if id is not ...:
        d['id'] = id
    if params is not ...:
        d['params'] = params
    d.update(extra)
    return d


SINGLES = [
    (R(1), 'result'), (R('x', params=[2]), 'result'), (R(0), 'result'), (R(''), 'result'), (R(None), None), (R(), None),
    (R(2, 'app_error'), -32602), (R(3, 'crash'), -32000), (R(4, 'missing'), -32601), (R(5, params=[1, 2, 3]), -32602),
    (R(method='crash'), None), (R(method='missing'), None),
    ({'jsonrpc': '2.0', 'id': 1}, -32600), ({'jsonrpc': '2.0', 'method': 1, 'id': 1}, -32600), (7, -32600), ('s', -32600),
    (R(True), -32600), (R(1.5), -32600), (R(1, params=3), -32600),
]
BATCHES = [
    [R(1), R(2, 'app_error'), R()],
    [R(), R(method='crash')],
    [R(1), R(2), R(3, 'crash'), R('a', 'missing')],
    [R(1), R(1)],
    [],
    [R(1), 5],
]
TEXTS = ['{', '', 'nul', '[1,', '1' * 5000]


def judge_single(doc, req, want):
    bad = []
    if want is None:
        return ['a notification was answered'] if doc is not None else []
    if not isinstance(doc, dict):
        return [f'expected one response object, got {doc!r}']
    if doc.get('jsonrpc') != '2.0' or ('result' in doc) == ('error' in doc):
        bad.append('not a well-formed response object')
    rid = req.get('id') if isinstance(req, dict) and want not in (-32600,) else None
    if want == -32600:
        if doc.get('id', 'missing') is not None and not (isinstance(req, dict) and doc.get('id') == req.get('id')):
            bad.append(f"id {doc.get('id')!r}")
    elif doc.get('id', 'missing') != rid or type(doc.get('id')) is not type(rid):
        bad.append(f"response id {doc.get('id')!r} for request id {rid!r}")
    if want == 'result':
        if 'result' not in doc:
            bad.append(f'expected a result, got {doc!r}')
    elif doc.get('error', {}).get('code') != want:
        bad.append(f"expected error {want}, got {doc.get('error')!r}")
    return bad


def check(dispatch):
    out = []
    for req, want in SINGLES:
        del RAN[:]
        r = dispatch(json.dumps(req))
        doc = json.loads(r[0]) if r is not None else None
        bad = judge_single(doc, req, want)
        if want in (-32600, -32601) and RAN:
            bad.append(f'executed {RAN} for a request that must not run anything')
        if bad:
            out.append({'request': json.dumps(req), 'reply': r[0] if r else None, 'problems': bad})
    for b in BATCHES:
        del RAN[:]
        r = dispatch(json.dumps(b))
        doc = json.loads(r[0]) if r is not None else None
        bad = []
        valid = bool(b) and all(isinstance(x, dict) for x in b) and len({x['id'] for x in b if 'id' in x}) == len([x for x in b if 'id' in x])
        if not valid:
            if not (isinstance(doc, dict) and doc.get('error', {}).get('code') == -32600 and doc.get('id') is None):
                bad.append('an invalid batch must be answered by ONE -32600 response with id null')
            if RAN:
                bad.append(f'executed {RAN} for a rejected batch')
        else:
            calls = [x for x in b if x.get('id') is not None]
            if not calls:
                if doc is not None:
                    bad.append('a batch of notifications was answered')
            elif not isinstance(doc, list):
                bad.append(f'expected an array, got {doc!r}')
            else:
                if [d.get('id') for d in doc] != [c['id'] for c in calls]:
                    bad.append(f"response ids {[d.get('id') for d in doc]} for call ids {[c['id'] for c in calls]} (one per call, in order)")
            if len(RAN) != len([x for x in b if x['method'] != 'missing']):
                bad.append(f'executed {RAN}: every registered element runs exactly once')
        if bad:
            out.append({'request': json.dumps(b), 'reply': r[0] if r else None, 'problems': bad})
    for t in TEXTS:
        del RAN[:]
        try:
            r = dispatch(t)
        except Exception as e:       # noqa
            out.append({'request': t[:40], 'reply': None, 'problems': [f'dispatch raised {type(e).__name__}']})
            continue
        doc = json.loads(r[0]) if r is not None else None
        if not (isinstance(doc, dict) and doc.get('error', {}).get('code') == -32700 and doc.get('id', 'm') is None) or RAN:
            out.append({'request': t[:40], 'reply': r[0] if r else None, 'problems': ['non-JSON text must get exactly one -32700 response with id null']})
    return out


def run(kind):
    if kind == 'Dispatcher':
        d = pjrpc.server.Dispatcher()
        for f in (ok, app_error, crash):
            d.add(f)
        return [dict(x, dispatcher=kind) for x in check(d.dispatch)]
    d = pjrpc.server.AsyncDispatcher()
    for f in (ok, app_error, crash):
        d.add(f)
    return [dict(x, dispatcher=kind) for x in check(lambda t: asyncio.run(d.dispatch(t)))]


if __name__ == '__main__':
    which = sys.argv[1] if len(sys.argv) > 1 else 'all'
    res, err = [], None
    for k in ('Dispatcher', 'AsyncDispatcher'):
        if which in (k, 'all'):
            try:
                res += run(k)
            except Exception as e:
                err = f'{k}: {type(e).__name__}: {e}'
    print(json.dumps({'failing': res, 'error': err}))
