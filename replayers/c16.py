"""Native witness search for a failed C16 purity obligation (run with the repo on PYTHONPATH): generate the OpenAPI /
OpenRPC documents several times and report any object the user passed in that changed, or any difference between
successive documents.  NOT part of the proof.  usage: c16.py <openapi|openrpc|all>; prints JSON."""
import copy
import json
import sys

import pjrpc.server
import pjrpc.common.exceptions as exc
from pjrpc.server.specs import extractors, openapi, openrpc
from pjrpc.server.specs.extractors import pydantic as pex


class E1(exc.JsonRpcError):
    code = 2001
    message = 'e1'


class E2(exc.JsonRpcError):
    code = 2002
    message = 'e2'


class Ex(pex.PydanticSchemaExtractor):
    def extract_errors(self, method):
        return [E2]


def run(kind):
    out = []
    if kind == 'openapi':
        errs, tags = [E1], ['t1']
        snapshot = (list(errs), list(tags))

        @openapi.annotate(errors=errs, tags=tags)
        def f(a: int) -> int:
            return a
        gen = openapi.OpenAPI(info=openapi.Info(version='1', title='t'), path='/s', schema_extractors=[Ex()])
    else:
        errs, tags = [openrpc.Error(code=2001, message='e1')], [openrpc.Tag(name='t1')]
        snapshot = (list(errs), list(tags))

        @openrpc.annotate(errors=errs, tags=tags)
        def f(a: int) -> int:
            return a
        gen = openrpc.OpenRPC(info=openrpc.Info(version='1', title='t'), path='/s', schema_extractor=Ex())
    d = pjrpc.server.Dispatcher()
    d.add(f)
    meta0 = copy.deepcopy(f.__pjrpc_meta__)
    docs = []
    for _ in range(3):
        docs.append(json.dumps(gen.schema(path='/api', methods_map={'': d.registry.values()}), sort_keys=True, default=str))
    if (list(errs), list(tags)) != snapshot:
        out.append({'generator': kind, 'problem': 'the annotation lists passed by the user changed',
                    'errors_before': repr(snapshot[0]), 'errors_after': repr(errs), 'generations': 3})
    if repr(meta0) != repr(f.__pjrpc_meta__):
        out.append({'generator': kind, 'problem': 'the method metadata changed', 'after': repr(f.__pjrpc_meta__)[:300]})
    if len(set(docs)) != 1:
        out.append({'generator': kind, 'problem': 'repeated generation yields different documents'})
    return out


if __name__ == '__main__':
    which = sys.argv[1] if len(sys.argv) > 1 else 'all'
    res, err = [], None
    for k in ('openapi', 'openrpc'):
        if which in (k, 'all'):
            try:
                res += run(k)
            except Exception as e:
                err = f'{k}: {type(e).__name__}: {e}'
    print(json.dumps({'failing': res, 'error': err}))
