"""Native witness search for a failed C18 obligation (run with the repo on PYTHONPATH).

NOT part of the proof: when an obligation of an HTTP integration fails, the engine's counter-model is an abstract
request object; this script looks for a concrete HTTP request that shows the same violation on the real code
through the framework's own test client.  usage: c18.py <integration: werkzeug|flask|aiohttp>; prints JSON."""
import asyncio
import json
import sys

import pjrpc.server

CALLS = []


def ping():
    CALLS.append('ping')
    return 'pong'


def boom():
    CALLS.append('boom')
    raise pjrpc.exc.InvalidParamsError(data='x')


BODIES = {
    'call': json.dumps({'jsonrpc': '2.0', 'id': 1, 'method': 'ping'}).encode(),
    'error': json.dumps({'jsonrpc': '2.0', 'id': 2, 'method': 'boom'}).encode(),
    'notification': json.dumps({'jsonrpc': '2.0', 'method': 'ping'}).encode(),
    'batch': json.dumps([{'jsonrpc': '2.0', 'id': 1, 'method': 'ping'}, {'jsonrpc': '2.0', 'id': 2, 'method': 'boom'}]).encode(),
    'garbage': b'{',
}
ACCEPT = ['application/json', 'application/json; charset=utf-8', 'application/json-rpc', 'application/jsonrequest',
          'Application/JSON']
REFUSE = ['application/x+json', 'application/jsonx', 'text/plain', 'application/json-rpc+x', None]


SEEN = []


def status_fn(codes):
    SEEN.append(tuple(codes))           # the spec: called once, with exactly the dispatcher's error codes
    return 200 if not codes or all(c == 0 for c in codes) else 207


def expected(dispatcher_factory, body):
    d = dispatcher_factory()
    r = d.dispatch(body.decode())
    if asyncio.iscoroutine(r):
        r = asyncio.run(r)
    return r


def judge(kind, ctype, bname, status, rtype, text, raised, want, with_status, calls):
    bad = []
    if raised:
        return [f'raised {raised} instead of answering']
    if kind == 'refuse':
        if status != 415:
            bad.append(f'status {status}, expected 415')
        if calls:
            bad.append(f'methods executed: {calls}')
        return bad
    if want is None:
        if status != 200 or text not in ('', None):
            bad.append(f'expected empty 200, got {status} {text!r}')
        return bad
    wtext, codes = want
    seen = list(SEEN)
    wstatus = status_fn(codes) if with_status else 200
    if with_status and seen != [tuple(codes)]:
        bad.append(f'status-by-error function called with {seen}, expected once with {tuple(codes)}')
    if status != wstatus:
        bad.append(f'status {status}, expected {wstatus}')
    try:
        same = json.loads(text) == json.loads(wtext)
    except ValueError:
        same = False
    if not same:
        bad.append(f'body {text[:80]!r} differs from the dispatcher document {wtext!r}')
    if (rtype or '').split(';')[0].strip() != 'application/json':
        bad.append(f'content type {rtype!r}')
    return bad


def cases():
    for b in BODIES:
        for t in ACCEPT:
            yield 'accept', t, b
    for t in REFUSE:
        yield 'refuse', t, 'call'


def run_werkzeug():
    from werkzeug.test import Client
    from pjrpc.server.integration import werkzeug as integ

    def disp():
        d = pjrpc.server.Dispatcher()
        d.add(ping), d.add(boom)
        return d
    out = []
    for kind, t, b in cases():
        app = integ.JsonRPC('/api')
        app.dispatcher.add(ping), app.dispatcher.add(boom)
        want = expected(disp, BODIES[b]) if kind == 'accept' else None
        del CALLS[:]
        del SEEN[:]
        raised = status = rtype = text = None
        try:
            r = Client(app).post('/api', data=BODIES[b], content_type=t)
            status, rtype, text = r.status_code, r.headers.get('Content-Type'), r.get_data(as_text=True)
        except Exception as e:
            raised = type(e).__name__
        bad = judge(kind, t, b, status, rtype, text, raised, want, False, list(CALLS))
        if bad:
            out.append({'integration': 'werkzeug', 'content_type': t, 'body': BODIES[b].decode(), 'problems': bad})
    return out


def run_flask():
    import flask
    from pjrpc.server.integration import flask as integ

    def disp():
        d = pjrpc.server.Dispatcher()
        d.add(ping), d.add(boom)
        return d
    out = []
    for kind, t, b in cases():
        app = flask.Flask('x')
        rpc = integ.JsonRPC('/api', status_by_error=status_fn)
        rpc.dispatcher.add(ping), rpc.dispatcher.add(boom)
        rpc.init_app(app)
        want = expected(disp, BODIES[b]) if kind == 'accept' else None
        del CALLS[:]
        del SEEN[:]
        raised = status = rtype = text = None
        try:
            r = app.test_client().post('/api', data=BODIES[b], content_type=t)
            status, rtype, text = r.status_code, r.headers.get('Content-Type'), r.get_data(as_text=True)
        except Exception as e:
            raised = type(e).__name__
        bad = judge(kind, t, b, status, rtype, text, raised, want, True, list(CALLS))
        if bad:
            out.append({'integration': 'flask', 'content_type': t, 'body': BODIES[b].decode(), 'problems': bad})
    return out


def run_aiohttp():
    from aiohttp.test_utils import TestClient, TestServer
    from pjrpc.server.integration import aiohttp as integ

    def disp():
        d = pjrpc.server.AsyncDispatcher()
        d.add(ping), d.add(boom)
        return d

    async def go():
        out = []
        for kind, t, b in cases():
            rpc = integ.Application('/api', status_by_error=status_fn)
            rpc.dispatcher.add(ping), rpc.dispatcher.add(boom)
            want = await disp().dispatch(BODIES[b].decode()) if kind == 'accept' else None
            del CALLS[:]
            del SEEN[:]
            raised = status = rtype = text = None
            try:
                async with TestClient(TestServer(rpc.app)) as c:
                    r = await c.post('/api', data=BODIES[b], headers={'Content-Type': t} if t else {})
                    status, rtype, text = r.status, r.headers.get('Content-Type'), await r.text()
            except Exception as e:
                raised = type(e).__name__
            bad = judge(kind, t, b, status, rtype, text, raised, want, True, list(CALLS))
            if bad:
                out.append({'integration': 'aiohttp', 'content_type': t, 'body': BODIES[b].decode(), 'problems': bad})
        return out
    return asyncio.run(go())


if __name__ == '__main__':
    which = sys.argv[1] if len(sys.argv) > 1 else 'all'
    res, err = [], None
    for name, f in (('werkzeug', run_werkzeug), ('flask', run_flask), ('aiohttp', run_aiohttp)):
        if which in (name, 'all'):
            try:
                res += f()
            except Exception as e:      # the search itself failed: no witness, say why
                err = f'{name}: {type(e).__name__}: {e}'
    print(json.dumps({'failing': res, 'error': err}))
