"""Native probe for C18 (run with /venv/bin/python): which media types does each integration hand to the dispatcher?"""
import asyncio, json, sys
import pjrpc.server
BODY = json.dumps({'jsonrpc': '2.0', 'id': 1, 'method': 'ping'})
TYPES = ['application/json', 'application/json; charset=utf-8', 'application/json-rpc', 'application/jsonrequest',
         'application/x+json', 'text/plain', None]


def ping():
    return 'pong'


def werkzeug_probe():
    from werkzeug.test import Client
    from pjrpc.server.integration import werkzeug as integ
    app = integ.JsonRPC('/api')
    app.dispatcher.add(ping)
    c = Client(app)
    out = {}
    for t in TYPES:
        try:
            r = c.post('/api', data=BODY, content_type=t)
            out[t] = r.status_code
        except Exception as e:
            out[t] = 'RAISED ' + type(e).__name__
    return out


def flask_probe():
    import flask
    from pjrpc.server.integration import flask as integ
    app = flask.Flask('x')
    rpc = integ.JsonRPC('/api')
    rpc.dispatcher.add(ping)
    rpc.init_app(app)
    c = app.test_client()
    out = {}
    for t in TYPES:
        r = c.post('/api', data=BODY, content_type=t)
        out[t] = r.status_code
    return out


def aiohttp_probe():
    from aiohttp import web
    from aiohttp.test_utils import TestClient, TestServer
    from pjrpc.server.integration import aiohttp as integ

    async def run():
        rpc = integ.Application('/api')
        rpc.dispatcher.add(ping)
        async with TestClient(TestServer(rpc.app)) as c:
            out = {}
            for t in TYPES:
                headers = {'Content-Type': t} if t else {}
                r = await c.post('/api', data=BODY.encode(), headers=headers)
                out[t] = r.status
            return out
    return asyncio.run(run())


if __name__ == '__main__':
    for name, f in (('werkzeug', werkzeug_probe), ('flask', flask_probe), ('aiohttp', aiohttp_probe)):
        try:
            print(name, f())
        except Exception as e:
            print(name, 'PROBE FAILED', type(e).__name__, e)
