"""BOUNDED stand-in (never counted as proved) for BaseBatch._relate (C08, batch matching): the loop pops a dict while
iterating the requests; its inductive invariant needs a quantifier alternation (every key of the initial map is still
in the map or is the id of an already visited request) that the VC generator does not discharge.  Exhaustive
comparison with the property statement on small batches instead."""
import itertools

PROPS = ['C08']
NAME = 'batch_relate_matching'
BOUND = ('(thorough tier: lengths 0..4) request id lists of length 0..3 over {None, 1, 2, "1"} (distinct non-null ids) x response id lists of length '
         '0..3 over {None, 1, 2, "1", 99} (distinct non-null ids) x strict on/off x success / batch-level error '
         '(exhaustive)')


def run():
    import os
    THOROUGH = os.environ.get('VERIF_TIER') == 'thorough'
    from pjrpc.client.client import BaseBatch
    from pjrpc.common import BatchRequest, BatchResponse, Request, Response
    from pjrpc.common.exceptions import IdentityError, JsonRpcError

    class Cl:
        def __init__(self, strict):
            self.strict = strict
            self.batch_request_class = BatchRequest
            self.request_class = Request

    def distinct(ids):
        nn = [i for i in ids if i is not None]
        return len(nn) == len({(type(i), i) for i in nn})

    cases, violations = 0, []
    for strict in (True, False):
        for nreq in range(0, 5 if THOROUGH else 4):
            for rids in itertools.product([None, 1, 2, '1'], repeat=nreq):
                if not distinct(rids):
                    continue
                for nresp in range(0, 5 if THOROUGH else 4):
                    for pids in itertools.product([None, 1, 2, '1', 99], repeat=nresp):
                        if not distinct(pids):
                            continue
                        for batch_error in (False, True):
                            cases += 1
                            reqs = [Request('m', id=i) for i in rids]
                            resps = [Response(id=i, result=0) for i in pids]
                            breq = BatchRequest(*reqs, strict=False)
                            bresp = BatchResponse(error=JsonRpcError(code=-32600, message='x'), strict=False) if batch_error \
                                else BatchResponse(*resps, strict=False)
                            batch = Cl(strict)
                            batch._client = batch
                            asked = {(type(i), i) for i in rids if i is not None}
                            got = {(type(i), i) for i in pids if i is not None}
                            # statement: in strict mode every call has its response and no response is unasked-for
                            expect_raise = strict and not batch_error and asked != got
                            try:
                                BaseBatch._relate(batch, breq, bresp)
                                raised = None
                            except IdentityError:
                                raised = 'IdentityError'
                            except Exception as ex:      # noqa
                                raised = type(ex).__name__
                            why = ''
                            ok = (raised == 'IdentityError') if expect_raise else raised is None
                            if ok and raised is None and not batch_error:
                                for r in resps:
                                    want = next((q for q in reqs if r.id is not None and q.id is not None
                                                 and (type(q.id), q.id) == (type(r.id), r.id)), None)
                                    if r.related is not want:
                                        ok = False
                                # C08: results read by position / as a tuple are attributed to the calls in the order
                                # the calls were made, whatever order the server used in its array
                                linked = [r for r in bresp if r.related is not None]
                                calls = [q for q in reqs if q.id is not None and any(r.related is q for r in resps)]
                                if [r.related for r in linked] != calls and not why:
                                    ok = False
                                    why = 'responses (hence BatchResponse.result / indexing) are not in the order of the calls'
                            if not ok and len(violations) < 5:
                                violations.append({'strict': strict, 'request_ids': list(map(repr, rids)),
                                                   'response_ids': list(map(repr, pids)), 'batch_error': batch_error,
                                                   'expected_raise': bool(expect_raise), 'raised': raised, 'problem': why})
    return cases, violations
