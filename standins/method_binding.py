"""BOUNDED stand-in (never counted as proved) for the ASSUMED parts of C04: the model of inspect.Signature.bind /
BoundArguments, the contract of BaseValidator.signature (filtering of excluded parameters, lru_cache transparency) and
the claim that calling functools.partial(f, **bound.arguments) is the direct call - natively, end to end through
Method.bind, against real direct calls, on a small corpus of signatures x params x context configurations."""
import itertools

PROPS = ['C04']
NAME = 'method_binding_vs_direct_call'
BOUND = ('9 plain signatures (defaults, keyword-only, 0..4 parameters) x context {none, by name (first / last parameter), '
         'positional first} x params {lists of length 0..4, dicts over all subsets of the parameter names + an unknown '
         'name + the context name, None}; exhaustive; plus 4 non-plain signatures (positional-only, *args, **kwargs) '
         'reported as a known finding')

CTX = object()


def _plain():
    def f0(): return {}
    def f1(a): return dict(a=a)
    def f2(a, b): return dict(a=a, b=b)
    def f3(a, b=20): return dict(a=a, b=b)
    def f4(a, *, c): return dict(a=a, c=c)
    def f5(a, b=20, *, c, d=40): return dict(a=a, b=b, c=c, d=d)
    def f6(a=10, b=20, c=30): return dict(a=a, b=b, c=c)
    def f7(*, c=30): return dict(c=c)
    def f8(a, b, c, d): return dict(a=a, b=b, c=c, d=d)
    refs = [f0, f1, f2, f3, f4, f5, f6, f7, f8]

    def g0(ctx): return dict(ctx=ctx)
    def g1(ctx, a): return dict(ctx=ctx, a=a)
    def g2(ctx, a, b): return dict(ctx=ctx, a=a, b=b)
    def g3(ctx, a, b=20): return dict(ctx=ctx, a=a, b=b)
    def g4(ctx, a, *, c): return dict(ctx=ctx, a=a, c=c)
    def g5(ctx, a, b=20, *, c, d=40): return dict(ctx=ctx, a=a, b=b, c=c, d=d)
    def g6(ctx, a=10, b=20, c=30): return dict(ctx=ctx, a=a, b=b, c=c)
    def g7(ctx, *, c=30): return dict(ctx=ctx, c=c)
    def g8(ctx, a, b, c, d): return dict(ctx=ctx, a=a, b=b, c=c, d=d)
    firsts = [g0, g1, g2, g3, g4, g5, g6, g7, g8]

    def h1(a, *, ctx): return dict(ctx=ctx, a=a)
    def h3(a, b=20, *, ctx): return dict(ctx=ctx, a=a, b=b)
    def h5(a, b=20, *, c, d=40, ctx): return dict(ctx=ctx, a=a, b=b, c=c, d=d)
    lasts = {1: h1, 3: h3, 5: h5}
    return refs, firsts, lasts


def _params_for(names):
    vals = [101, 102, 103, 104]
    yield None
    for n in range(0, 5):
        yield list(vals[:n])
    pool = list(names) + ['zzz', 'ctx']
    for r in range(0, len(pool) + 1):
        for ks in itertools.combinations(pool, r):
            yield {k: 200 + i for i, k in enumerate(ks)}


def _direct(ref, params):
    try:
        if isinstance(params, (list, tuple)):
            return ('ok', ref(*params))
        if isinstance(params, dict):
            return ('ok', ref(**params))
        return ('ok', ref())
    except TypeError:
        return ('typeerror', None)


def run():
    import inspect
    from pjrpc.server.dispatcher import Method
    from pjrpc.server.validators import ValidationError
    refs, firsts, lasts = _plain()
    cases, violations = 0, []

    def one(desc, method, ref, params):
        nonlocal cases
        cases += 1
        want = _direct(ref, params)
        try:
            bound = method.bind(params, context=CTX)
        except ValidationError:
            got = ('typeerror', None)
        except Exception as ex:                 # noqa
            got = ('raised ' + type(ex).__name__, None)
        else:
            try:
                got = ('ok', bound())
            except Exception as ex:             # noqa
                got = ('call raised ' + type(ex).__name__, None)
        ok = got[0] == want[0]
        if ok and got[0] == 'ok':
            res = dict(got[1])
            if method.context is not None:
                ok = res.pop('ctx', None) is CTX
            ok = ok and res == want[1]
        if not ok and len(violations) < 5:
            violations.append({'case': desc, 'params': repr(params), 'direct_call': repr(want), 'library': repr(got)})

    for i, ref in enumerate(refs):
        names = list(inspect.signature(ref).parameters)
        for params in _params_for(names):
            one(f'f{i} no context', Method(ref), ref, params)
            one(f'g{i} context by name (first parameter)', Method(firsts[i], context='ctx'), ref, params)
            one(f'g{i} positional context', Method(firsts[i], context='ctx', positional=True), ref, params)
            if i in lasts:
                one(f'h{i} context by name (last, keyword-only)', Method(lasts[i], context='ctx'), ref, params)
    return cases, violations


def known_finding_cases():
    """non-plain signatures: BoundArguments.arguments passed as keywords is NOT the direct call.  Each entry:
    (finding key, callable, params, what a direct call gives)"""
    def p1(a, /, b): return [a, b]
    def v1(*args): return list(args)
    def k1(**kw): return kw
    def m1(a, *rest, **kw): return [a, list(rest), kw]
    return [('positional-only', p1, [1, 2], [1, 2]), ('var-positional', v1, [1, 2], [1, 2]),
            ('var-keyword', k1, {'x': 1}, {'x': 1}), ('mixed-variadic', m1, [1, 2], [1, [2], {}])]


def run_known():
    """-> [(key, still_fails, detail)] for the known-findings report"""
    from pjrpc.server.dispatcher import Method
    out = []
    for key, fn, params, want in known_finding_cases():
        try:
            got = Method(fn).bind(params)()
            detail = f'library call gives {got!r}, direct call gives {want!r}'
            out.append((key, got != want, detail))
        except Exception as ex:                 # noqa
            out.append((key, True, f'library raises {type(ex).__name__}: {ex}; direct call gives {want!r}'))
    return out
