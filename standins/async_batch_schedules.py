"""BOUNDED stand-in (never counted as proved) for the schedule quantifier of C10, which contracts do not enumerate: a batch
of 3 calls whose handlers suspend on futures is served by the real AsyncDispatcher while the futures are released in
EVERY order; the response array must list the responses in request order, each with its own id and result, every method
having run exactly once; with concurrent_batch=False no two elements may ever be in flight together."""
import asyncio
import itertools
import json

PROPS = ['C10']
NAME = 'async_batch_schedules'
BOUND = ('batches of 3 calls (+ 1 notification) x all 6 (24) release orders of the suspended handlers x concurrent_batch '
         'on / off x one element failing or not; exhaustive over this grid; single event loop')


def run():
    import pjrpc.server
    cases, violations = 0, []

    async def one(order, concurrent, failing):
        gates = {}
        state = {'in_flight': 0, 'max_in_flight': 0, 'ran': [], 'started': []}

        async def work(n):
            state['started'].append(n)
            state['in_flight'] += 1
            state['max_in_flight'] = max(state['max_in_flight'], state['in_flight'])
            fut = asyncio.get_running_loop().create_future()
            gates[n] = fut
            await fut
            state['in_flight'] -= 1
            state['ran'].append(n)
            if n == failing:
                raise pjrpc.exc.InvalidParamsError(data=n)
            return n * 10

        d = pjrpc.server.AsyncDispatcher(concurrent_batch=concurrent)
        d.add(work)
        ns = [1, 2, 3, 4]
        batch = [{'jsonrpc': '2.0', 'method': 'work', 'params': [n], **({'id': n} if n != 4 else {})} for n in ns]
        task = asyncio.ensure_future(d.dispatch(json.dumps(batch)))
        released = []
        for _ in range(200):
            await asyncio.sleep(0)
            nxt = next((n for n in order if n in gates and n not in released), None)
            if not concurrent:
                nxt = next((n for n in gates if n not in released), None)       # only one can be waiting
            if nxt is not None and not gates[nxt].done():
                gates[nxt].set_result(None)
                released.append(nxt)
            if task.done():
                break
        if not task.done():
            task.cancel()
            return ['dispatch did not finish']
        text, codes = task.result()
        doc = json.loads(text)
        bad = []
        if [r.get('id') for r in doc] != [1, 2, 3]:
            bad.append(f"response ids {[r.get('id') for r in doc]} (request order is [1, 2, 3])")
        for r in doc:
            n = r.get('id')
            if n == failing:
                if r.get('error', {}).get('data') != n:
                    bad.append(f'response {n} does not carry its own error')
            elif r.get('result') != n * 10:
                bad.append(f'response {n} carries {r.get("result")!r}, not its own result')
        if sorted(state['ran']) != ns:
            bad.append(f"executions {state['ran']}: every element exactly once")
        if not concurrent and (state['max_in_flight'] > 1 or state['started'] != ns):
            bad.append(f"sequential mode: max in flight {state['max_in_flight']}, start order {state['started']}")
        return bad

    for concurrent in (True, False):
        for failing in (None, 2):
            for order in itertools.permutations([1, 2, 3, 4]):
                cases += 1
                bad = asyncio.run(one(order, concurrent, failing))
                if bad and len(violations) < 5:
                    violations.append({'release_order': order, 'concurrent_batch': concurrent, 'failing_element': failing,
                                       'problems': bad})
    return cases, violations
