"""BOUNDED stand-in (never counted as proved) for C11's cross-half statement: every sync/async pair is PROVED against one
shared contract, which fixes what the contract fixes; this differential run compares the two real dispatchers on a corpus
of request texts (documents, error codes, executions) and the two real clients on a scripted transport (request
documents, results, exceptions, tracer events) - natively."""
import asyncio
import json

PROPS = ['C11']
NAME = 'sync_async_differential'
BOUND = ('dispatchers: the corpus of replayers/c01.py (19 single documents, 6 batches, 5 non-JSON texts) with plain and '
         'coroutine methods; clients: 8 scripted exchanges (success, typed error, unknown error code, id mismatch, garbage '
         'body, notification, transport exception, retry after a retryable code) with one tracer')


def run():
    import pjrpc
    import pjrpc.server
    from pjrpc.client import AbstractAsyncClient, AbstractClient, retry, tracer
    from replayers import c01
    import logging
    logging.disable(logging.CRITICAL)
    cases, violations = 0, []

    # ---- dispatchers
    def mk(kind):
        ran = []

        def ok(a=1):
            ran.append(('ok', a))
            return {'a': a}

        def app_error():
            ran.append(('app_error',))
            raise pjrpc.exc.InvalidParamsError(data='nope')

        def crash():
            ran.append(('crash',))
            raise ZeroDivisionError('x')

        async def aok(a=1):
            ran.append(('ok', a))
            return {'a': a}
        if kind == 'sync':
            d = pjrpc.server.Dispatcher()
            d.add(ok), d.add(app_error), d.add(crash)
            return d, ran, (lambda t: d.dispatch(t))
        d = pjrpc.server.AsyncDispatcher()
        d.add(aok, name='ok') if kind == 'async-coro' else d.add(ok)
        d.add(app_error), d.add(crash)
        return d, ran, (lambda t: asyncio.run(d.dispatch(t)))
    texts = [json.dumps(r) for r, _ in c01.SINGLES] + [json.dumps(b) for b in c01.BATCHES] + list(c01.TEXTS)
    for t in texts:
        outs = {}
        for kind in ('sync', 'async', 'async-coro'):
            cases += 1
            _, ran, call = mk(kind)
            try:
                r = call(t)
                outs[kind] = (json.loads(r[0]) if r else None, r[1] if r else None, list(ran))
            except Exception as e:      # noqa
                outs[kind] = ('raised ' + type(e).__name__,)
        if not (outs['sync'] == outs['async'] == outs['async-coro']) and len(violations) < 5:
            violations.append({'request': t[:120], 'outcomes': {k: repr(v)[:200] for k, v in outs.items()}})

    # ---- clients
    class Log(tracer.Tracer):
        def __init__(self):
            self.events = []

        def on_request_begin(self, trace_context, request):
            self.events.append(('begin', json.dumps(request.to_json(), sort_keys=True)))

        def on_request_end(self, trace_context, request, response):
            self.events.append(('end', None if response is None else json.dumps(response.to_json(), sort_keys=True)))

        def on_error(self, trace_context, request, error):
            self.events.append(('error', type(error).__name__))
    script = [
        ('success', [lambda q: {'jsonrpc': '2.0', 'id': q['id'], 'result': 5}]),
        ('typed error', [lambda q: {'jsonrpc': '2.0', 'id': q['id'], 'error': {'code': -32601, 'message': 'Method not found'}}]),
        ('unknown code', [lambda q: {'jsonrpc': '2.0', 'id': q['id'], 'error': {'code': 1234, 'message': 'm', 'data': [1]}}]),
        ('id mismatch', [lambda q: {'jsonrpc': '2.0', 'id': 'other', 'result': 5}]),
        ('garbage', [lambda q: {'jsonrpc': '2.0', 'id': q['id']}]),
        ('transport exception', [ConnectionError('down')]),
        ('retry', [lambda q: {'jsonrpc': '2.0', 'id': q['id'], 'error': {'code': 2001, 'message': 'again'}},
                   lambda q: {'jsonrpc': '2.0', 'id': q['id'], 'result': 7}]),
    ]
    strategy = retry.RetryStrategy(backoff=retry.PeriodicBackoff(attempts=2, interval=0.0), codes={2001})

    def outcome(kind, steps, notify=False):
        sent, log, todo = [], Log(), list(steps)

        def answer(text):
            sent.append(json.loads(text))
            step = todo.pop(0)
            if isinstance(step, Exception):
                raise step
            return json.dumps(step(sent[-1]))
        if kind == 'sync':
            class C(AbstractClient):
                def _request(self, text, is_notification=False, **kw):
                    return None if is_notification and not sent.append(json.loads(text)) else answer(text)
            c = C(tracers=[log], retry_strategy=strategy)
            run_ = (lambda f: f())
        else:
            class C(AbstractAsyncClient):
                async def _request(self, text, is_notification=False, **kw):
                    return None if is_notification and not sent.append(json.loads(text)) else answer(text)
            c = C(tracers=[log], retry_strategy=strategy)
            run_ = (lambda f: asyncio.run(f()))
        try:
            res = ('ok', run_(lambda: c.notify('m', 1) if notify else c.call('m', 1)))
        except Exception as e:      # noqa
            res = ('raised', type(e).__name__, getattr(e, 'code', None), getattr(e, 'data', None))
        return res, sent, log.events
    for name, steps in script + [('notification', [])]:
        cases += 1
        a = outcome('sync', steps, notify=(name == 'notification'))
        b = outcome('async', steps, notify=(name == 'notification'))
        if a != b and len(violations) < 5:
            violations.append({'exchange': name, 'sync': repr(a)[:300], 'async': repr(b)[:300]})
    logging.disable(logging.NOTSET)
    return cases, violations
