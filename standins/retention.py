"""BOUNDED stand-in (never counted as proved) for the retention clause of C13 at the CPython level, which the heap model of
the VC generator does not see (functools.lru_cache is modelled as transparent; reference cycles, tracebacks): after a
dispatch returns nothing the library holds may keep the per-request context - or anything created for the request, such as
the instance of a class-based view - alive."""
import asyncio
import gc
import json
import weakref

PROPS = ['C13']
NAME = 'per_request_retention'
BOUND = ('sync and async dispatcher x {plain function with a context parameter, class-based view constructed with the '
         'context} x {default validator, jsonschema validator on the function} x 40 requests each (calls, a failing call, a '
         'notification, a 2-element batch) with a fresh context object per request; weak references after gc.collect()')


class Ctx:
    pass


def run():
    import logging
    import pjrpc.server
    from pjrpc.server import validators
    from pjrpc.server.validators import jsonschema as js
    logging.disable(logging.CRITICAL)
    cases, violations = 0, []
    views = []

    def plain(ctx, a=1):
        return a

    jv = js.JsonSchemaValidator()

    @jv.validate(schema={'type': 'object'})
    def checked(ctx, a=1):
        return a

    class View(pjrpc.server.ViewMixin):
        def __init__(self, ctx):
            super().__init__()
            self.ctx = ctx
            views.append(weakref.ref(self))

        def echo(self, a=1):
            return a

        def boom(self):
            raise ValueError('x')
    bodies = [
        {'jsonrpc': '2.0', 'id': 1, 'method': '{m}', 'params': [5]},
        {'jsonrpc': '2.0', 'id': 2, 'method': '{m}', 'params': {'zzz': 1}},
        {'jsonrpc': '2.0', 'method': '{m}'},
        [{'jsonrpc': '2.0', 'id': 3, 'method': '{m}'}, {'jsonrpc': '2.0', 'method': '{m}'}],
    ]
    for kind in ('sync', 'async'):
        for target in ('plain', 'checked', 'view'):
            cases += 1
            d = pjrpc.server.Dispatcher() if kind == 'sync' else pjrpc.server.AsyncDispatcher()
            if target == 'plain':
                d.add(plain, context='ctx')
                name = 'plain'
            elif target == 'checked':
                d.add(checked, context='ctx')
                name = 'checked'
            else:
                d.registry.view(View, context='ctx')
                name = 'echo'
            del views[:]
            refs = []
            for i in range(40):
                ctx = Ctx()
                refs.append(weakref.ref(ctx))
                body = json.dumps(bodies[i % len(bodies)]).replace('{m}', name if i % 7 else ('boom' if target == 'view' else name))
                r = d.dispatch(body, context=ctx)
                if kind == 'async':
                    asyncio.run(r)
                del ctx
            gc.collect()
            alive_ctx = sum(1 for r in refs if r() is not None)
            alive_views = sum(1 for r in views if r() is not None)
            if (alive_ctx or alive_views) and len(violations) < 6:
                violations.append({'dispatcher': kind, 'target': target, 'requests': 40,
                                   'contexts_still_alive': alive_ctx, 'view_instances_still_alive': alive_views})
    logging.disable(logging.NOTSET)
    return cases, violations
