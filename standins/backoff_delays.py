"""BOUNDED stand-in (never counted as proved) for the ASSUMED contract of Backoff.__call__ used by the retry-loop proofs
(C09): the delay iterators are Python generators over floats (exponentiation, Fibonacci recurrence) - outside the VC
generator's subset.  Their closed forms are compared natively on a grid."""
import itertools
import math

PROPS = ['C09']
NAME = 'backoff_closed_forms'
BOUND = ('attempts 0..8 x parameter grids (interval / base / factor / multiplier in {0, 0.5, 1, 2, 3}, max_value in '
         '{None, 0, 1, 5, 1e9}) x jitter in {0, constant 0.25}; exhaustive over the grid; a fresh iterator per call, '
         'exactly `attempts` delays')


def fib(n):
    a, b = 1, 1
    for _ in range(n):
        a, b = b, a + b
    return a


def run():
    from pjrpc.client import retry
    cases, violations = 0, []
    grid = [0, 0.5, 1, 2, 3]
    caps = [None, 0, 1, 5, 1e9]

    def check(desc, backoff, want):
        nonlocal cases
        cases += 1
        got1, got2 = list(backoff()), list(backoff())
        ok = len(got1) == len(want) and all(math.isclose(a, b, rel_tol=1e-12, abs_tol=1e-12) for a, b in zip(got1, want)) \
            and got1 == got2
        if not ok and len(violations) < 5:
            violations.append({'backoff': desc, 'expected': want, 'got': got1, 'second_iterator': got2})

    for n in range(0, 9):
        for jit in (0.0, 0.25):
            j = (lambda v=jit: v)
            for x in grid:
                check(f'Periodic(attempts={n}, interval={x}, jitter={jit})',
                      retry.PeriodicBackoff(attempts=n, interval=x, jitter=j), [x + jit] * n)
            for base, factor, cap in itertools.product(grid, grid, caps):
                want = [base * factor ** k + jit for k in range(n)]
                want = [min(cap, v) if cap is not None else v for v in want]
                check(f'Exponential(attempts={n}, base={base}, factor={factor}, max_value={cap}, jitter={jit})',
                      retry.ExponentialBackoff(attempts=n, base=base, factor=factor, max_value=cap, jitter=j), want)
            for mult, cap in itertools.product(grid, caps):
                want = [fib(k) * mult + jit for k in range(1, n + 1)]
                want = [min(cap, v) if cap is not None else v for v in want]
                check(f'Fibonacci(attempts={n}, multiplier={mult}, max_value={cap}, jitter={jit})',
                      retry.FibonacciBackoff(attempts=n, multiplier=mult, max_value=cap, jitter=j), want)
    return cases, violations
