"""BOUNDED stand-in (never counted as proved) for C20: operation / call histories on the REAL PjRpcMocker (patching the transport
method of a client class defined here) against a reference model of the property statement: per (endpoint, method) a queue of
patches answered round-robin in order of addition, a `once` patch answers exactly one call, the reply carries the request id
and the configured result / error / callback value, every mocked call is recorded, an unpatched method of a patched endpoint
gets -32601, an endpoint without patches is passed through or refused as configured, batches are answered element-wise.
The deductive part proves `_match_request`, `add`, `replace`, `remove` and the unpatched branch of `_on_request` one call at a
time; their composition over histories (and the patched branches of `_on_request`) is covered only here."""
import itertools
import json
import os

import pjrpc

PROPS = ['C20']
NAME = 'mocker_histories'
THOROUGH = os.environ.get('VERIF_TIER') == 'thorough'
DEPTH = 5 if THOROUGH else 4
BOUND = (f'all histories of up to {DEPTH} operations over add(m, once on/off) for 2 methods (patch kinds result / error / callback '
         f'in rotation), single call of each method (positional / named params alternating), a batch [m0, m1, m0], '
         f'replace(m0, idx 0 / 1), remove(m0) on one endpoint (a second endpoint stays unpatched and is probed at the end), '
         f'x passthrough on / off; replies, ids and recorded call counts compared with the reference model')

EP, EP2 = 'http://ep', 'http://other'
METHODS = ('m0', 'm1')


class SyncClient:
    def __init__(self, endpoint):
        self._endpoint = endpoint

    def _request(self, data, is_notification=False, **kwargs):
        return json.dumps(pjrpc.Response(id='original_id', result='original_result').to_json())


def _patch_kwargs(i, tag):
    kind = i % 3
    if kind == 0:
        return {'result': tag}
    if kind == 1:
        return {'error': pjrpc.exc.JsonRpcError(code=1000 + i, message=tag)}
    return {'callback': lambda *a, _t=tag, **kw: _t}


def _want(i, tag):
    return ('error', 1000 + i, tag) if i % 3 == 1 else ('result', tag)


def _got(resp):
    if 'error' in resp:
        return ('error', resp['error']['code'], resp['error']['message'])
    return ('result', resp['result'])


class Model:
    def __init__(self, passthrough):
        self.q = {}                 # method -> list of (patch number, tag, once)
        self.calls = {}             # method -> number of mocked calls
        self.passthrough = passthrough

    def patched(self):
        return any(self.q.values())

    def call(self, m):
        """('passthrough',) | ('refused',) | ('error', -32601, ..) | expected answer"""
        if not self.patched():
            return ('passthrough',) if self.passthrough else ('refused',)
        q = self.q.get(m)
        if not q:
            return ('notfound',)
        i, tag, once = q.pop(0)
        if not once:
            q.append((i, tag, once))
        self.calls[m] = self.calls.get(m, 0) + 1
        return _want(i, tag)


def _ops():
    ops = []
    for m in METHODS:
        for once in (False, True):
            ops.append(('add', m, once))
    for m in METHODS:
        ops.append(('call', m))
    ops.append(('batch',))
    ops.append(('replace', 'm0', 0))
    ops.append(('replace', 'm0', 1))
    ops.append(('remove', 'm0'))
    return ops


def _one_call(cli, model, m, rid, named, problems, where):
    params = {'x': rid} if named else [rid]
    text = json.dumps(pjrpc.Request(method=m, params=params, id=rid).to_json())
    want = model.call(m)
    try:
        raw = cli._request(text)
    except ConnectionRefusedError:
        if want != ('refused',):
            problems.append(f'{where}: call {m} refused, expected {want}')
        return
    resp = json.loads(raw)
    if want == ('refused',):
        problems.append(f'{where}: call {m} answered {resp}, expected ConnectionRefusedError')
    elif want == ('passthrough',):
        if resp.get('result') != 'original_result':
            problems.append(f'{where}: call {m} answered {resp}, expected the real transport')
    elif want == ('notfound',):
        if resp.get('error', {}).get('code') != -32601 or resp.get('id') != rid:
            problems.append(f'{where}: call {m} answered {resp}, expected -32601 with id {rid}')
    elif _got(resp) != want or resp.get('id') != rid:
        problems.append(f'{where}: call {m} (id {rid}) answered {resp}, expected {want}')


def _batch(cli, model, rid0, problems, where):
    names = ('m0', 'm1', 'm0')
    if not model.patched():
        return                      # an unpatched endpoint hands the whole text to the real transport: single-call case
    reqs = [pjrpc.Request(method=m, params=[rid0 + j], id=rid0 + j) for j, m in enumerate(names)]
    wants = [model.call(m) if model.patched() or True else None for m in names]
    raw = cli._request(json.dumps([r.to_json() for r in reqs]))
    resp = json.loads(raw)
    if not isinstance(resp, list) or len(resp) != len(names):
        problems.append(f'{where}: batch answered {resp}')
        return
    for j, (r, w) in enumerate(zip(resp, wants)):
        if w in (('passthrough',), ('refused',), ('notfound',)):
            ok = r.get('error', {}).get('code') == -32601
        else:
            ok = _got(r) == w
        if not ok or r.get('id') != rid0 + j:
            problems.append(f'{where}: batch element {j} ({names[j]}, id {rid0 + j}) answered {r}, expected {w}')
            return


def _run_history(hist, ops, passthrough):
    from pjrpc.client.integrations.pytest import PjRpcMocker
    problems = []
    model = Model(passthrough)
    cli, cli2 = SyncClient(EP), SyncClient(EP2)
    with PjRpcMocker('standins.mocker_histories.SyncClient._request', passthrough=passthrough) as mocker:
        n_patch = 0
        rid = 1
        for step, o in enumerate(hist):
            op = ops[o]
            where = f'step {step} {op}'
            if op[0] == 'add':
                tag = f'p{n_patch}'
                mocker.add(EP, op[1], once=op[2], **_patch_kwargs(n_patch, tag))
                model.q.setdefault(op[1], []).append((n_patch, tag, op[2]))
                n_patch += 1
            elif op[0] == 'replace':
                q = model.q.get(op[1]) or []
                if op[2] < len(q):
                    tag = f'p{n_patch}'
                    mocker.replace(EP, op[1], idx=op[2], **_patch_kwargs(n_patch, tag))
                    q[op[2]] = (n_patch, tag, False)
                    n_patch += 1
            elif op[0] == 'remove':
                if model.q.get(op[1]):
                    mocker.remove(EP, op[1])
                    model.q[op[1]] = []
            elif op[0] == 'call':
                _one_call(cli, model, op[1], rid, named=bool(step % 2), problems=problems, where=where)
                rid += 1
            else:
                _batch(cli, model, rid, problems, where)
                rid += 3
            if problems:
                return problems
        # the other endpoint has no patches: passthrough or refusal, whatever happened on the first one
        other = Model(passthrough)
        _one_call(cli2, other, 'm0', 9000, named=False, problems=problems, where='unpatched endpoint')
        # every mocked call was recorded under its endpoint and method
        for m in METHODS:
            stub = mocker.calls.get(EP, {}).get(('2.0', m))
            got = stub.call_count if stub is not None else 0
            if got != model.calls.get(m, 0):
                problems.append(f'calls[{EP!r}][("2.0", {m!r})].call_count == {got}, expected {model.calls.get(m, 0)}')
    return problems


def run():
    import logging
    logging.getLogger('pjrpc').setLevel(logging.ERROR)
    ops = _ops()
    cases, violations = 0, []
    for passthrough in (False, True):
        for depth in range(1, DEPTH + 1):
            for hist in itertools.product(range(len(ops)), repeat=depth):
                if depth > 2 and not any(ops[o][0] in ('call', 'batch') for o in hist):
                    continue
                cases += 1
                problems = _run_history(hist, ops, passthrough)
                if problems:
                    violations.append({'passthrough': passthrough, 'history': [list(map(str, ops[o])) for o in hist],
                                       'problems': problems})
                    if len(violations) >= 5:
                        return cases, violations
    return cases, violations
