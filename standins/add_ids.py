"""BOUNDED stand-in (never counted as proved) for the ASSUMED clause of the `_add_ids` contracts: the identity error is
raised exactly when the ids contain a duplicate (C06 duplicate detection, needed by C01/C02/C08)."""
import itertools

PROPS = ['C06', 'C02', 'C08', 'C01']
NAME = 'add_ids_duplicate_semantics'
BOUND = ('all id sequences of length 0..4 (0..5 in the thorough tier) over {None, 0, 1, -1, "", "0", "1", "a"} x existing id sets '
         '{{}, {0}, {1, "1"}, {""}} x strict on/off, for BatchRequest and BatchResponse (exhaustive)')


def run():
    import os
    THOROUGH = os.environ.get('VERIF_TIER') == 'thorough'
    from pjrpc.common.v20 import BatchRequest, BatchResponse
    from pjrpc.common.exceptions import IdentityError
    from spec.prims import dup_in
    alphabet = [None, 0, 1, -1, '', '0', '1', 'a']
    existing_sets = [set(), {0}, {1, '1'}, {''}]
    cases = 0
    violations = []
    for cls in (BatchRequest, BatchResponse):
        for strict in (True, False):
            for existing in existing_sets:
                for n in range(0, 6 if THOROUGH else 5):
                    for ids in itertools.product(alphabet, repeat=n):
                        cases += 1
                        b = cls(strict=strict)
                        b._ids = set(existing)
                        before = set(b._ids)
                        expect_raise = strict and dup_in(existing, ids)
                        try:
                            b._add_ids(*ids)
                            raised = None
                        except IdentityError:
                            raised = 'IdentityError'
                        except Exception as ex:      # noqa
                            raised = type(ex).__name__
                        ok = True
                        if expect_raise:
                            ok = raised == 'IdentityError' and b._ids == before
                        else:
                            want = before | {i for i in ids if i is not None} if strict else before
                            ok = raised is None and b._ids == want
                        if not ok and len(violations) < 5:
                            violations.append({'class': cls.__name__, 'strict': strict, 'existing': sorted(map(repr, existing)),
                                               'ids': list(map(repr, ids)), 'expected_raise': bool(expect_raise),
                                               'raised': raised, 'ids_after': sorted(map(repr, b._ids))})
    return cases, violations
