"""BOUNDED stand-in (never counted as proved) for C15: registration histories on the REAL MethodRegistry / Dispatcher against a
reference model of the property statement (name -> function under `prefixes + explicit name or __name__`, later registration
replaces, views expose exactly their public callables).  It exercises what the contracts leave assumed or uncovered:
`ViewMethod.copy` (assumed: getattr by a symbolic name), `MethodRegistry.view`, `add_methods`, `ViewMixin.__methods__`, and it
gives the deductive C15 clauses (whose counter-models are abstract registries) a concrete failing history."""
import itertools
import json
import os

PROPS = ['C15']
NAME = 'registry_histories'
THOROUGH = os.environ.get('VERIF_TIER') == 'thorough'
DEPTH = 5 if THOROUGH else 4
BOUND = (f'all histories of {DEPTH} operations over add / add(name=) / add_methods(function) / add_methods(Method) / view / '
         f'view(prefix=) / merge(registry with prefix in none, "a", "a.b", holding a function, a same-named function and a view) '
         f'on registries with prefix in none, "a", "a.b", then merged into an unprefixed and a prefixed outer registry (3 levels); '
         f'key set and the function reached by every key compared with the reference model; every expected name, private member '
         f'names and one-edit neighbours dispatched through Dispatcher')

PREFIXES = (None, 'a', 'a.b')


def _fn(tag, name):
    def f():
        return tag
    f.__name__ = name
    f.__qualname__ = name
    return f


def _view(tag):
    import pjrpc.server

    class V(pjrpc.server.ViewMixin):
        attr = 5                                    # a non-callable: never reachable

        def pub(self):
            return tag + ':pub'

        def status(self):
            return tag + ':status'

        def _priv(self):
            return tag + ':priv'
    return V


def qual(*parts):
    return '.'.join(p for p in parts if p)


class Model:
    """reference: name -> result tag of the function reached"""

    def __init__(self, prefix):
        self.prefix, self.names = prefix, {}

    def add(self, name, tag):
        self.names[qual(self.prefix, name)] = tag

    def view(self, vprefix, tag):
        for m in ('pub', 'status'):
            self.names[qual(self.prefix, vprefix, m)] = f'{tag}:{m}'

    def merge(self, other):
        for n, t in other.names.items():
            self.names[qual(self.prefix, n)] = t


def _inner(prefix, tag):
    """a small registry to be merged: one function, one function named like a method of the target, one view"""
    import pjrpc.server
    r, m = pjrpc.server.MethodRegistry(prefix=prefix), Model(prefix)
    r.add(_fn(tag + ':deep', 'deep'))
    m.add('deep', tag + ':deep')
    r.add(_fn(tag + ':status', 'status'))
    m.add('status', tag + ':status')
    r.view(_view(tag + 'v'), prefix='v')
    m.view('v', tag + 'v')
    return r, m


def _ops():
    import pjrpc.server
    ops = []
    ops.append(('add f', lambda r, m, i: (r.add(_fn(f'f{i}', 'status')), m.add('status', f'f{i}'))))
    ops.append(('add g name=other', lambda r, m, i: (r.add(_fn(f'g{i}', 'g'), name='other'), m.add('other', f'g{i}'))))
    ops.append(('add_methods(function)', lambda r, m, i: (r.add_methods(_fn(f'h{i}', 'deep')), m.add('deep', f'h{i}'))))
    ops.append(('add_methods(Method name=a.status)',
                lambda r, m, i: (r.add_methods(pjrpc.server.Method(_fn(f'm{i}', 'x'), name='a.status')),
                                 m.names.__setitem__('a.status', f'm{i}'))))
    ops.append(('view', lambda r, m, i: (r.view(_view(f'v{i}')), m.view(None, f'v{i}'))))
    ops.append(('view prefix=v', lambda r, m, i: (r.view(_view(f'w{i}'), prefix='v'), m.view('v', f'w{i}'))))
    for p in PREFIXES:
        def mg(r, m, i, p=p):
            ir, im = _inner(p, f'i{i}')
            r.merge(ir)
            m.merge(im)
        ops.append((f'merge(prefix={p!r})', mg))
    return ops


def _reached(disp, name):
    out = disp.dispatch(json.dumps({'jsonrpc': '2.0', 'id': 1, 'method': name}))
    resp = json.loads(out[0] if isinstance(out, tuple) else out)
    if 'error' in resp:
        return ('error', resp['error']['code'])
    return ('result', resp['result'])


def _check(reg, model, history, violations, probe):
    import pjrpc.server
    keys = sorted(reg.keys())
    if keys != sorted(model.names):
        violations.append({'history': history, 'registered': keys, 'expected': sorted(model.names)})
        return
    if not probe:
        return
    disp = pjrpc.server.Dispatcher()
    disp.add_methods(*reg.values())
    names = set(model.names)
    extra = set()
    for n in names:
        extra.update({n + 'x', n[:-1], '_' + n, n.rsplit('.', 1)[0] + '._priv' if '.' in n else '_priv',
                      n.rsplit('.', 1)[0] + '.attr' if '.' in n else 'attr'})
    for n in sorted(names | (extra - names)):
        got = _reached(disp, n)
        want = ('result', model.names[n]) if n in model.names else ('error', -32601)
        if got != want:
            violations.append({'history': history, 'name': n, 'got': list(got), 'expected': list(want)})
            return


def run():
    import logging
    import pjrpc.server
    logging.getLogger('pjrpc').setLevel(logging.ERROR)
    logging.getLogger('pjrpc.server').setLevel(logging.ERROR)
    ops = _ops()
    cases, violations = 0, []
    for prefix in PREFIXES:
        for depth in range(1, DEPTH + 1):
            for hist in itertools.product(range(len(ops)), repeat=depth):
                cases += 1
                reg, model = pjrpc.server.MethodRegistry(prefix=prefix), Model(prefix)
                for i, o in enumerate(hist):
                    ops[o][1](reg, model, i)
                history = [f'registry(prefix={prefix!r})'] + [ops[o][0] for o in hist]
                n0 = len(violations)
                _check(reg, model, history, violations, probe=depth <= 2)
                # ... and merged two more levels up (unprefixed, then prefixed outer registry)
                if len(violations) == n0 and depth <= 2:
                    for outer_prefix in PREFIXES:
                        outer, om = pjrpc.server.MethodRegistry(prefix=outer_prefix), Model(outer_prefix)
                        outer.add(_fn('own', 'status'))
                        om.add('status', 'own')
                        outer.merge(reg)
                        om.merge(model)
                        top, tm = pjrpc.server.MethodRegistry(prefix='a'), Model('a')
                        top.merge(outer)
                        tm.merge(om)
                        _check(top, tm, history + [f'merged into registry(prefix={outer_prefix!r}) with its own status',
                                                   "merged into registry(prefix='a')"], violations, probe=depth == 1)
                if len(violations) >= 5:
                    return cases, violations
    return cases, violations


def run_known():
    """a view member that is a public ALIAS of a private function (`pub = _impl`): MethodRegistry.view names the method by
    the function's __name__, not by the attribute it was found under - the private name answers, the public one does not"""
    import logging
    import pjrpc.server
    logging.getLogger('pjrpc').setLevel(logging.ERROR)

    class V(pjrpc.server.ViewMixin):
        def _impl(self):
            return 'impl'
        pub = _impl

    reg = pjrpc.server.MethodRegistry()
    reg.view(V)
    disp = pjrpc.server.Dispatcher()
    disp.add_methods(*reg.values())
    private, public = _reached(disp, '_impl'), _reached(disp, 'pub')
    fails = private != ('error', -32601) or public != ('result', 'impl')
    return [('view-alias-of-private-member', fails,
             f"class V(ViewMixin): def _impl(self): ...; pub = _impl -> keys {sorted(reg.keys())}; request '_impl' -> "
             f"{list(private)}, request 'pub' -> {list(public)}")]
