"""BOUNDED stand-in (never counted as proved) for C18: the native witness search of replayers/c18.py run on EVERY check, not only
next to a failed obligation - the three integrations through their frameworks' own test clients over media types x bodies,
against the dispatcher's own answer: status (incl. the status-by-error function being called once with exactly the
dispatcher's error codes), content type, body, 415 + nothing executed.  It exercises the ASSUMED framework contracts (request
media type, response constructors, HTTP exceptions becoming replies) that the deductive part of C18 rests on."""
PROPS = ['C18']
NAME = 'http_integrations_native'
BOUND = ('integrations aiohttp / flask / werkzeug x 5 accepted spellings of the documented media types x 5 bodies (call, error, '
         'notification, mixed batch, garbage) + 5 refused media types (near misses, unrelated, missing header), with a recording '
         'status-by-error function where the integration takes one')


def run():
    from replayers import c18
    cases, violations = 0, []
    n = sum(1 for _ in c18.cases())
    for fn in (c18.run_werkzeug, c18.run_flask, c18.run_aiohttp):
        cases += n
        violations.extend(fn())
    return cases, violations[:5]
