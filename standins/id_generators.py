"""BOUNDED stand-in (never counted as proved) for the ASSUMED oracle contract of the client's id iterator (C07: `next(id_gen)`
is an int or a str - a valid JSON-RPC id; calls of one batch / one client get pairwise distinct ids from `sequential`).
The builtin generators are Python generators over `random` / `uuid` - outside the VC generator."""
import itertools

PROPS = ['C07']
NAME = 'id_generators'
BOUND = ('first 200 ids of sequential(start in {-3, 0, 1}, step in {1, 2, 7}), randint(0, 10**6), random(length in {1, 8}); '
         'type of every id; pairwise distinctness for sequential')


def _ok_id(x):
    return isinstance(x, (int, str)) and not isinstance(x, bool)


def run():
    from pjrpc.common import generators
    cases, violations = 0, []
    for start, step in itertools.product((-3, 0, 1), (1, 2, 7)):
        cases += 1
        ids = list(itertools.islice(generators.sequential(start, step), 200))
        if not all(_ok_id(i) for i in ids) or len(set(ids)) != len(ids) or ids[0] != start:
            violations.append({'generator': f'sequential({start}, {step})', 'first_ids': ids[:5]})
    for name, gen in (('randint(0, 10**6)', generators.randint(0, 10 ** 6)), ('random(1)', generators.random(1)),
                      ('random(8)', generators.random(8))):
        cases += 1
        ids = list(itertools.islice(gen, 200))
        if not all(_ok_id(i) for i in ids):
            violations.append({'generator': name, 'first_ids': [repr(i) for i in ids[:5]]})
    return cases, violations


def run_known():
    """generators.uuid yields uuid.UUID objects: not a JSON-RPC id, json.dumps of the request raises TypeError"""
    import json
    from pjrpc.common import generators
    import pjrpc
    x = next(generators.uuid())
    try:
        json.dumps(pjrpc.Request('m', id=x), cls=pjrpc.JSONEncoder)
        fails, detail = not _ok_id(x), f'id {x!r} of type {type(x).__name__} was serialised'
    except TypeError as e:
        fails, detail = True, f'id of type {type(x).__name__}: {e}'
    return [('uuid', fails, detail)]
