"""BOUNDED stand-in (never counted as proved) for the COMPOSITION clause of C07 (client contracts and dispatcher contracts
are proved separately; that a call made through the client and served by the library's own dispatcher yields what a direct
invocation yields is their composition - a paper argument): the real client is wired to the real dispatcher (transport :=
dispatch) and every calling notation is compared with the direct call, natively."""
import asyncio
import json

PROPS = ['C07']
NAME = 'client_server_loopback'
BOUND = ('sync and async client x notations {call, proxy attribute, hand-built Request via send, notify, batch() chain, '
         'batch[...] tuples, batch.add/notify + call, batch proxy} x functions {echo(a, b=2), named-only, raising a typed '
         'error with data, raising ZeroDivisionError} x a few argument sets; ids pairwise distinct; one wire document per '
         'call')


def run():
    import logging
    import pjrpc
    import pjrpc.server
    from pjrpc.client import AbstractAsyncClient, AbstractClient
    logging.disable(logging.CRITICAL)
    cases, violations = 0, []
    ran = []

    def echo(a, b=2):
        ran.append(('echo', a, b))
        return {'a': a, 'b': [b, None]}

    def named(*, x, y=(1, 2)):
        ran.append(('named', x, y))
        return [x, list(y)]

    def typed():
        ran.append(('typed',))
        raise pjrpc.exc.InvalidParamsError(data={'why': [1, None]})

    def crash():
        ran.append(('crash',))
        raise ZeroDivisionError('secret')
    funcs = {'echo': echo, 'named': named, 'typed': typed, 'crash': crash}

    def direct(name, args, kwargs):
        try:
            return ('ok', json.loads(json.dumps(funcs[name](*args, **kwargs))))
        except pjrpc.exc.JsonRpcError as e:
            return ('raised', type(e), e.code, e.message, e.data)
        except Exception:       # noqa
            return ('raised', pjrpc.exc.ServerError, -32000, 'Server error', pjrpc.common.UNSET)

    def outcome(f):
        try:
            return ('ok', f())
        except pjrpc.exc.JsonRpcError as e:
            return ('raised', type(e), e.code, e.message, e.data)
        except Exception as e:          # noqa: anything else is a library failure, reported as such
            return ('raised', type(e), None, str(e), None)

    for kind in ('sync', 'async'):
        wire = []
        if kind == 'sync':
            d = pjrpc.server.Dispatcher()

            class C(AbstractClient):
                def _request(self, text, is_notification=False, **kw):
                    wire.append(json.loads(text))
                    r = d.dispatch(text)
                    return r[0] if r else None
            run_ = (lambda x: x)
        else:
            d = pjrpc.server.AsyncDispatcher()

            class C(AbstractAsyncClient):
                async def _request(self, text, is_notification=False, **kw):
                    wire.append(json.loads(text))
                    r = await d.dispatch(text)
                    return r[0] if r else None

            def run_(x):
                return asyncio.run(x) if asyncio.iscoroutine(x) else x
        for f in funcs.values():
            d.add(f)
        c = C()
        calls = [('echo', (1,), {}), ('echo', (1, 5), {}), ('echo', (), {'a': 'x', 'b': None}), ('named', (), {'x': 3}),
                 ('typed', (), {}), ('crash', (), {})]

        def check(desc, got, name, args, kwargs, n_docs=1):
            nonlocal cases
            cases += 1
            del ran[:]
            want = direct(name, args, kwargs)
            problems = []
            if got != want:
                problems.append(f'client got {got!r}, direct call gives {want!r}')
            if problems and len(violations) < 6:
                violations.append({'client': kind, 'notation': desc, 'call': (name, args, kwargs), 'problems': problems})

        for name, args, kwargs in calls:
            del wire[:]
            check('call', outcome(lambda: run_(c.call(name, *args, **kwargs))), name, args, kwargs)
            if len(wire) != 1 or 'id' not in wire[0]:
                violations.append({'client': kind, 'notation': 'call', 'problem': f'wire documents {wire!r}'})
            check('proxy', outcome(lambda: run_(getattr(c.proxy, name)(*args, **kwargs))), name, args, kwargs)
            req = pjrpc.Request(name, list(args) or kwargs or None, id=77)
            got = outcome(lambda: run_(c.send(req)).result)
            check('send(Request)', got, name, args, kwargs)
            del wire[:], ran[:]
            cases += 1
            r = outcome(lambda: run_(c.notify(name, *args, **kwargs)))
            r = None if r == ('ok', None) else r
            if r is not None or len(wire) != 1 or 'id' in wire[0] or len(ran) != 1:
                violations.append({'client': kind, 'notation': 'notify', 'call': name,
                                   'problem': f'returned {r!r}, wire {wire!r}, executions {ran!r}'})
        # batch notations: all interchangeable, results in call order, ids pairwise distinct
        good = [('echo', (1,), {}), ('named', (), {'x': 3}), ('echo', (4, 5), {})]
        want = tuple(direct(n, a, k)[1] for n, a, k in good)
        notations = {
            'batch(...)(...).call()': lambda: run_(c.batch('echo', 1)('named', x=3)('echo', 4, 5).call()),
            'batch[...]': lambda: run_(c.batch[('echo', 1), ('echo', 4, 5)]),
            'batch.add + call': lambda: run_(c.batch.add('echo', 1).add('named', x=3).add('echo', 4, 5).call()),
            'batch.proxy': lambda: run_(c.batch.proxy.echo(1).named(x=3).echo(4, 5).call()),
        }
        for desc, f in notations.items():
            cases += 1
            del wire[:]
            got = outcome(f)
            exp = ('ok', want if desc != 'batch[...]' else (want[0], want[2]))
            ids = [q.get('id') for q in wire[0]] if wire and isinstance(wire[0], list) else None
            if got != exp or len(wire) != 1 or ids is None or len(set(ids)) != len(ids) or None in ids:
                violations.append({'client': kind, 'notation': desc, 'got': repr(got)[:200], 'expected': repr(exp)[:200],
                                   'wire_ids': ids})
        cases += 1
        del wire[:], ran[:]
        r = outcome(lambda: run_(c.batch.notify('echo', 1).notify('crash').call()))
        if r != ('ok', None) or len(ran) != 2 or any('id' in q for q in wire[0]):
            violations.append({'client': kind, 'notation': 'notification-only batch', 'returned': repr(r), 'executions': list(ran)})
    logging.disable(logging.NOTSET)
    return cases, violations[:6]
