"""BOUNDED stand-in (never counted as proved) for the parts of C16 no contract reaches (the documents are produced by
dataclasses / pydantic): generation terminates without raising, the document is JSON-encodable, every registered method
occurs exactly once under its exposed name, repeated generation yields the identical document and leaves the annotations
and metadata of the methods unchanged - for a few method sets, both generators, default and pydantic extractor."""
import copy
import json

PROPS = ['C16']
NAME = 'spec_generation_smoke'
BOUND = ('generators {OpenAPI, OpenRPC} x extractors {default BaseSchemaExtractor, PydanticSchemaExtractor} x 3 method sets '
         '(un-annotated; annotated with errors / tags / examples; two methods sharing one errors list) x 3 generations each')


def run():
    import pjrpc.server
    import pjrpc.common.exceptions as exc
    from pjrpc.server.specs import extractors, openapi, openrpc
    from pjrpc.server.specs.extractors import pydantic as pex
    cases, violations = 0, []

    class E1(exc.JsonRpcError):
        code = 2001
        message = 'e1'

    def method_sets(mod):
        shared = [E1] if mod is openapi else [openrpc.Error(code=2001, message='e1')]

        def plain(a: int, b: str = 'x') -> int:
            return a

        @mod.annotate(errors=list(shared), tags=['t'] if mod is openapi else [openrpc.Tag(name='t')])
        def annotated(a: int) -> int:
            return a

        @mod.annotate(errors=shared)
        def first(a: int) -> int:
            return a

        @mod.annotate(errors=shared)
        def second(a: int) -> int:
            return a
        return {'plain': [plain], 'annotated': [plain, annotated], 'shared errors': [first, second]}, shared

    for gname, mod in (('OpenAPI', openapi), ('OpenRPC', openrpc)):
        for ename, ex in (('default extractor', extractors.BaseSchemaExtractor), ('pydantic extractor', pex.PydanticSchemaExtractor)):
            sets, shared = method_sets(mod)
            for sname, funcs in sets.items():
                cases += 1
                problems = []
                try:
                    d = pjrpc.server.Dispatcher()
                    for f in funcs:
                        d.add(f)
                    if mod is openapi:
                        gen = openapi.OpenAPI(info=openapi.Info(version='1', title='t'), path='/s', schema_extractors=[ex()])
                    else:
                        gen = openrpc.OpenRPC(info=openrpc.Info(version='1', title='t'), path='/s', schema_extractor=ex())
                    meta0 = [copy.deepcopy(getattr(f, '__pjrpc_meta__', None)) for f in funcs]
                    shared0 = list(shared)
                    docs = [json.dumps(gen.schema(path='/api', methods_map={'': d.registry.values()}), sort_keys=True)
                            for _ in range(3)]
                    if len(set(docs)) != 1:
                        problems.append('repeated generation yields different documents')
                    if [repr(m) for m in meta0] != [repr(getattr(f, '__pjrpc_meta__', None)) for f in funcs] or list(shared) != shared0:
                        problems.append('annotations / metadata of the methods changed')
                    doc = json.loads(docs[0])
                    names = [f.__name__ for f in funcs]
                    if mod is openrpc:
                        got = sorted(m['name'] for m in doc.get('methods', []))
                    else:
                        got = sorted(p.rsplit('#', 1)[-1] for p in doc.get('paths', {}))
                    if got != sorted(names):
                        problems.append(f'documented methods {got}, registered {sorted(names)}')
                except Exception as e:      # noqa
                    problems.append(f'generation raised {type(e).__name__}: {e}')
                if problems and len(violations) < 6:
                    violations.append({'generator': gname, 'extractor': ename, 'methods': sname, 'problems': problems})
    return cases, violations
