"""BOUNDED stand-in (never counted as proved) for the first sentence of C13: the response to a request does not depend on which
requests the same dispatcher served before it.  The deductive part of C13 proves the frame of the dispatch chain against an
ABSTRACT `Method.bind` (and the frame `modifies = ()` of the concrete bind / validators under the C04 contracts); state kept
in CPython-level caches (functools.lru_cache and the like) is outside the heap model - this replays histories natively."""
import asyncio
import itertools
import json
import os

PROPS = ['C13']
NAME = 'history_independence'
THOROUGH = os.environ.get('VERIF_TIER') == 'thorough'
BOUND = ('every history of 1 (quick) / up to 2 (thorough) requests followed by a probe request, all drawn from a corpus of calls '
         'of echo / add / defaulted / context / view / validated (jsonschema) methods with positional and named params over the '
         'JSON scalar alphabet null, true, false, 0, 1, 1.0, -0.0, "", "1", plus failing calls (unknown method, wrong arity, '
         'method error); the probe response is compared with the same probe on a fresh dispatcher, for Dispatcher and '
         'AsyncDispatcher')

SCALARS = [None, True, False, 0, 1, 1.0, -0.0, '', '1']


def _build(async_):
    import pjrpc.server
    from pjrpc.server.validators import jsonschema as vjs
    reg = pjrpc.server.MethodRegistry()
    validator = vjs.JsonSchemaValidator()

    def echo(value):
        return [type(value).__name__, value]

    def add(a, b=0):
        return [type(a).__name__, a, type(b).__name__, b]

    def ctx_echo(ctx, value=None):
        return [type(value).__name__, value]

    def boom(value):
        raise ValueError(repr(value))

    @validator.validate(schema={'type': 'object', 'properties': {'value': {'type': ['number', 'boolean', 'null', 'string']}},
                                'required': ['value']})
    def checked(value):
        return [type(value).__name__, value]

    class V(pjrpc.server.ViewMixin):
        def __init__(self, ctx=None):
            super().__init__()

        def vecho(self, value):
            return [type(value).__name__, value]

    reg.add(echo)
    reg.add(add)
    reg.add(ctx_echo, context='ctx')
    reg.add(boom)
    reg.add(checked)
    reg.view(V, context='ctx')
    d = (pjrpc.server.AsyncDispatcher if async_ else pjrpc.server.Dispatcher)()
    d.add_methods(reg)
    return d


def _corpus():
    reqs = []
    for v in SCALARS:
        reqs.append(('echo', [v]))
        reqs.append(('echo', {'value': v}))
        reqs.append(('add', [v]))
        reqs.append(('ctx_echo', {'value': v}))
        reqs.append(('vecho', [v]))
        reqs.append(('checked', {'value': v}))
    reqs += [('add', [1, True]), ('add', [True, 1]), ('add', {'a': 0, 'b': False}), ('add', {'a': False, 'b': 0}),
             ('nope', []), ('echo', []), ('echo', [1, 2]), ('boom', [1]), ('boom', [True]), ('checked', {'value': [1]})]
    return reqs


def _text(i, req):
    return json.dumps({'jsonrpc': '2.0', 'id': i, 'method': req[0], 'params': req[1]})


def _dispatch(d, async_, text):
    out = asyncio.run(d.dispatch(text, context=object())) if async_ else d.dispatch(text, context=object())
    return out[0] if isinstance(out, tuple) else out


def run():
    import logging
    logging.getLogger('pjrpc').setLevel(logging.CRITICAL)
    logging.getLogger('pjrpc.server').setLevel(logging.CRITICAL)
    corpus = _corpus()
    cases, violations = 0, []
    for async_ in (False, True):
        fresh = {}
        for p in corpus:
            fresh[json.dumps(p)] = _dispatch(_build(async_), async_, _text(99, p))
        lengths = (1, 2) if THOROUGH else (1,)
        for n in lengths:
            hists = itertools.product(corpus, repeat=n) if n == 1 else \
                itertools.product(corpus[::3], repeat=n)
            for hist in hists:
                d = _build(async_)
                served = []                     # everything this dispatcher has served so far (earlier probes included)
                for i, h in enumerate(hist):
                    _dispatch(d, async_, _text(i, h))
                    served.append(_text(i, h))
                for p in corpus:
                    cases += 1
                    got = _dispatch(d, async_, _text(99, p))
                    served.append(_text(99, p))
                    if got != fresh[json.dumps(p)]:
                        violations.append({'dispatcher': 'AsyncDispatcher' if async_ else 'Dispatcher',
                                           'history': served[:-1], 'probe': _text(99, p),
                                           'after_history': got, 'fresh_dispatcher': fresh[json.dumps(p)]})
                        if len(violations) >= 5:
                            return cases, violations
    return cases, violations
