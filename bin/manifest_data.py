NOTES = ('Fix commits in /repo (unguarded, one defect each) are listed in known_findings.json as fixed entries. '
         'Properties under not_applicable are not claimed: either no contract within reach decides them or '
         'their contracts are not written yet; see DESIGN.md.')

CLAIMS = {
    'C06': {
        'text': 'For every JSON value (unbounded: any type, any members, any nesting) Request.from_json, Response.from_json '
                'and JsonRpcError.from_json return iff the value is structurally valid per the property statement, raise '
                'only DeserializationError otherwise, and the returned object carries exactly the members of the input; '
                'each is a postcondition proved path by path on the real AST.',
        'note': 'assumes the Python value model (DESIGN 3.1), default message classes, user error subclasses not overriding '
                '__init__/from_json; batch-level clauses (append/extend atomicity, batch from_json) are added as loops land',
    },
}
NOT_CLAIMED = {}
