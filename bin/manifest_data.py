NOTES = ('Fix commits in /repo (unguarded, one defect each) are listed in known_findings.json as fixed entries. '
         'Properties under not_applicable are not claimed: either no contract within reach decides them or '
         'their contracts are not written yet; see DESIGN.md.')

CLAIMS = {
    'C06': {
        'text': 'For every JSON value (unbounded: any type, any members, any nesting) Request.from_json, Response.from_json '
                'and JsonRpcError.from_json return iff the value is structurally valid per the property statement, raise '
                'only DeserializationError otherwise, and the returned object carries exactly the members of the input; '
                'each is a postcondition proved path by path on the real AST.',
        'note': 'assumes the Python value model (DESIGN 3.1), default message classes, user error subclasses not overriding '
                '__init__/from_json; batch-level clauses (append/extend atomicity, batch from_json) are added as loops land',
    },
}
CLAIMS.update({
    'C05': {
        'text': 'Exact wire forms of Request.to_json / Response.to_json / JsonRpcError.to_json are proved as map-equalities '
                '(member by member plus member count) for every field value; the round trip from_json(norm(to_json(m))) is a '
                'lemma over those contracts and the from_json contracts (same method/id/params/result/error fields, '
                'identical wire form again, error class = class registered for the code else the supplied base class), '
                'for all payloads.',
        'note': 'json.dumps/json.loads are an assumed contract (norm: scalars fixed, tuples->lists, member-wise, length and '
                'emptiness preserving, idempotent); batch messages are not yet under contract',
    },
    'C03': {
        'text': 'For every registry, method name, params and behaviour of the user method (abstract callable: returns or '
                'raises any Exception), _handle_rpc_method / _handle_rpc_request / _handle_request of both dispatchers '
                'produce exactly the error of the failure class (unknown name -32601 nothing executed; params that do not '
                'bind -32602 method not run; protocol error passed through as the same object; any other exception the '
                'constant ServerError() with no data) - postconditions over a ghost call trace, proved path by path.',
        'note': 'Method.bind is an assumed contract (binds(method, params) uninterpreted) until C04; the parse-error / '
                'invalid-request branches of dispatch() are not yet under contract; user callables follow A-user',
    },
    'C02': {
        'text': 'Per request element: a notification is never answered (success or failure), a call is answered by one '
                'Response carrying the identical id object and the method value unchanged, and the method is executed '
                'exactly once iff it is registered and its params bind (ghost trace length and callee) - proved for both '
                'dispatchers against one shared contract.',
        'note': 'the batch-level clauses (filter-map over elements, rejection of invalid batches) are not yet under contract',
    },
    'C12': {
        'text': 'Error handlers: loop invariant over it.chain(generic handlers, handlers for the RAISED error code): every '
                'iteration appends exactly one ghost event - the call of the k-th handler with (request, context, error '
                'returned by the previous handler) - and the error sent is the last returned one; handlers never run on '
                'success (trace equality). Both dispatchers, one contract.',
        'note': 'the middleware chain built in the constructor and its use by dispatch() are not yet under contract; '
                'handlers are assumed not to raise and to return well-formed protocol errors (A-user)',
    },
})
CLAIMS.update({
    'C09': {
        'text': 'retry / retry_async wrapped(): one inductive invariant over the ghost event trace (k sends, each followed '
                'by a pause of exactly the k-th delay of the backoff, every retried outcome was a listed code or a listed '
                'exception class, iterator position = k <= n) proves for every n and every outcome sequence: at most n+1 '
                'sends, no pause before the first or after the last send, the last outcome (response / None / exception '
                'object) is handed back unchanged, a listed outcome is only handed back when no attempt remains.',
        'note': 'Backoff.__call__ is an assumed contract here (fresh iterator over delays_of(backoff), numbers); the '
                'closed forms of the three backoff generators and the retried() strategy selection are not yet under '
                'contract; time.sleep/asyncio.sleep only record; `except tuple(classes)` is the uninterpreted exc_listed',
    },
    'C19': {
        'text': 'traced wrappers (sync and async, one contract): three loop invariants over the tracer list and the ghost '
                'trace prove, for any number of tracers and any outcome of the wrapped send (returns anything, raises any '
                'BaseException incl. non-Exception ones): begin*n, the send, then end*n with the response or error*n with '
                'the raised exception object, each tracer called in list order with the same trace context, and the very '
                'same exception object leaves.',
        'note': 'tracers are assumed not to raise and _tracers to be a list (A-user); composition with the retry loop '
                '(every attempt traced) follows from C09 counting calls of the wrapped function, stated not machine-checked',
    },
})
CLAIMS.update({
    'C08': {
        'text': 'Single responses: BaseAbstractClient._relate returns iff not (strict and the non-null response id differs '
                'from the request id by value or JSON type), raises only IdentityError otherwise and links nothing; '
                'Response.from_json accepts exactly the valid response objects (C06 contract); the raw _send hands the '
                'decoded response and the request to the validator exactly once.',
        'note': 'batch matching (BaseBatch._relate, BatchResponse ordering) is not yet under contract; `is` on scalars is '
                'modelled as value equality, so an `!=` -> `is not` rewrite on ids is not distinguished',
    },
    'C07': {
        'text': 'The undecorated _send of both clients (one contract): for every single request exactly one transport call '
                'is made whose text carries exactly the request wire form (request_wire: jsonrpc/method/id iff call/params '
                'iff present, nothing else), flagged as notification iff the id is None; notifications return None; calls '
                'return the Response decoded from the returned body after exactly one validator call.',
        'note': 'call()/notify()/proxy/batch notations, id generators and the client-dispatcher composition lemma are not '
                'yet under contract; json.dumps/loads, the transport and the validator are assumed/abstract',
    },
    'C11': {
        'text': 'Each sync/async pair is verified against ONE shared contract object (also=...): _handle_rpc_method, '
                '_handle_rpc_request, _handle_request, traced wrapper, retry/retry_async wrapped, raw _send. Two bodies that '
                'both satisfy a functional contract (response object, ghost call trace, transport events, sleeps, tracer '
                'events as functions of the inputs and oracle outcomes) agree on every observable the contract fixes; a '
                'change to one half only either keeps the contract or fails that half.',
        'note': 'await-erasure (single-task reasoning); dispatch(), call()/notify()/send(), Batch/AsyncBatch are not yet '
                'paired under contract',
    },
})
CLAIMS['C01'] = {
    'text': 'dispatch() of both dispatchers (one contract), for every request text (fully symbolic string; json.loads is an '
            'assumed contract with three outcomes: a JSON value, JSONDecodeError, plain ValueError), every registry, '
            'max_batch_size and middleware/handler configuration under A-user: it never raises; it returns None or '
            '(text, codes) where the document put into the text is a well-formed response object or a NON-EMPTY array; '
            'for a single response the codes tuple is (code or 0,); non-JSON text is answered by exactly one -32700 '
            'response with id null and nothing is executed. Every path of the real body is explored (15 + 13 paths), '
            'callees by contract (Request/BatchRequest.from_json, _handle_request, BatchResponse.__init__, to_json).',
    'note': 'assumed: json.loads/json.dumps contracts; BatchResponse.to_json wire form; the lemma that the strict '
            'BatchResponse built from an accepted batch finds no duplicate ids; duplicate-id semantics of _add_ids '
            '(bounded stand-in, exhaustive up to 4 ids); element-wise well-formedness of the ARRAY members is not proved '
            '(only non-emptiness and that each member is the wire form of a handler result); A-user for methods, '
            'middlewares (return UNSET or a well-formed Response) and error handlers',
}
CLAIMS['C02']['note'] = ('batch level: the batch branch of dispatch() is a filter over a map; comprehension contracts prove, for '
                         'a generic element, that the map runs over exactly the accepted batch in order, that each produced '
                         'element is UNSET for a notification and a Response with the identical id otherwise (chain without user '
                         'middlewares), and that the filter keeps exactly the non-UNSET elements; that a comprehension is an '
                         'order-preserving filter-map is the semantics of the VC generator (trusted). Duplicate-id semantics '
                         'assumed + bounded stand-in; a user middleware may answer anything (A-user)')
CLAIMS['C03']['note'] = ('Method.bind is an assumed contract (binds(method, params) uninterpreted) until C04; -32700 for '
                         'non-JSON text and the error constructor are proved (dispatch, JsonRpcError.__init__); the '
                         '-32600 clause for invalid documents is covered by the from_json contracts (C06) plus dispatch '
                         'never raising, not yet as an explicit postcondition; user callables follow A-user')
CLAIMS['C10'] = {
    'text': 'AsyncDispatcher.dispatch: with concurrent_batch switched off no path of the body reaches asyncio.gather (ghost '
            'counter of gather calls unchanged - the only construct through which element handlers can be in flight '
            'together), the elements are awaited by a list comprehension in request order; in both modes the responses are '
            'collected in request order (assumed contract of gather: results in argument order) and filtered structurally.',
    'note': 'the quantifier over SCHEDULES is not enumerated by this technique: the claim is reduced to (i) the per-element '
            'handler contract, (ii) no shared mutable state written by the handler chain (not machine-checked as a frame '
            'yet), (iii) the assumed contract of asyncio.gather; await-erasure (single-task reasoning); the non-interference '
            'meta-theorem connecting these to every interleaving is a paper argument',
}
CLAIMS['C15'] = {
    'text': 'MethodRegistry.add / _add_method / get / merge / add_methods, Method.__init__ and Method.copy under contract, with the map '
            '_registry as the abstract view: registering stores the method under prefix+separator+name (name = explicit name '
            'or __name__), a later registration under an existing key replaces the earlier one, every other key keeps its '
            'entry (whole-view postcondition: the map changes at exactly one key), get returns exactly the stored entry or '
            'None (-> -32601 by C03); the decorator form returns the user function itself. merge(other): a loop invariant over '
            'other.items() proves, for an ARBITRARY name g (hand-skolemised universal: one uninterpreted constant shared by '
            'all clauses), that prefix.g reaches a new Method around the function other registers under g (same context '
            'settings, named prefix.g) iff g is registered in other, and is otherwise exactly what it was; for an ARBITRARY '
            'key that cannot be a prefixed name nothing changes; other itself is unchanged; Method.copy(name=) is proved to '
            'build that Method. add_methods(*items): for an ARBITRARY key, the key is untouched unless an item registers it (a '
            'Method under its own name, a plain function under prefix.__name__), and then holds what the LAST such item put '
            'there (explicit last-writer witness function, recursive definition instantiated along the induction).',
    'note': 'ViewMethod.copy is an ASSUMED contract (getattr by a symbolic name in ViewMethod.__init__); view(), '
            'ViewMixin.__methods__ and the dispatcher-level wrappers are not under contract - these, and merge over views, are '
            'exercised only by the BOUNDED stand-in registry_histories (all histories of up to 4 registration operations x 3 '
            'prefixes, merged 3 levels deep, key set and reached function compared with a reference model, probed through '
            'Dispatcher incl. private members and one-edit neighbours); assumed for merge: registered names are non-empty '
            'strings, other is not self, a function\'s __pjrpc_meta__ dict and a registry\'s name table are different '
            'objects (field regions, A-fields); coarse frame ($containers + *.__pjrpc_meta__) compensated by whole-view '
            'clauses on both registries; function identity is a heap reference; __name__ of a callable is an uninterpreted '
            'string attribute; KNOWN FINDING (known_findings.json, not repaired): a view member that is a public alias of a '
            'private function is registered under the private __name__',
}
CLAIMS['C18'] = {
    'text': 'aiohttp / flask / werkzeug _rpc_handle and the werkzeug WSGI entry point are each proved against ONE spec '
            '(spec/http.py): the request is dispatched iff its media type is one of the three documented types, then the '
            'body text is read once, the dispatcher is called exactly once with that text, the reply carries exactly the '
            'returned text, application/json and the status of the status-by-error function called once with the '
            'dispatcher error codes (200 where none can be configured), an empty 200 when the dispatcher returns nothing; '
            'any other media type raises the 415 exception with an unchanged ghost trace (nothing executed); the WSGI '
            'entry never lets an HTTP exception escape and sends a 415 reply. Equivalence of the integrations is the '
            'corollary of the shared spec.',
    'note': 'assumed framework contracts (validated natively by probes/c18_integrations.py and replayers/c18.py): '
            'mimetype / aiohttp content_type is the parameter-free lower-cased media type; raw header equals a documented '
            'type only without parameters; flask is_json; HTTP exceptions raised from flask views / aiohttp handlers become '
            'replies with their status; response constructors store status/body/content type; the dispatcher is an '
            'abstract callable returning None or (text, codes) (its own contract is C01); endpoint routing and prefixes '
            'are not under contract; violations are accompanied by a native witness search through the framework test '
            'clients, which also runs on every check as the BOUNDED stand-in http_integrations_native (90 requests: 3 '
            'integrations x accepted / refused media types x 5 bodies, recording status-by-error function)',
}
CLAIMS['C13'] = {
    'text': 'Frame conditions of the whole server-side chain dispatch() -> _handle_request -> _handle_rpc_request -> '
            '_handle_rpc_method (both dispatchers) are PROVED: every heap cell written on any path (directly, by an inlined '
            'callee or on behalf of a callee contract) belongs to an object allocated by that very call; modifies is the '
            'ghost trace only. Hence no field of the dispatcher, registry, method, validator or any other pre-existing '
            'object changes and none can come to reference the context or a per-request object (nothing is retained), and '
            'the response - a function of the inputs and the oracle outcomes by the C01-C03 postconditions - cannot depend '
            'on earlier dispatches.',
    'note': 'not decided by this technique: the quantifier over THREAD schedules (single-task reasoning only; the frame '
            'shows there is no shared library state a second thread could observe being written); CPython-level retention '
            '(reference cycles, tracebacks, caches of the standard library) is outside the heap model - functools.lru_cache is '
            'modelled as transparent - and is covered by the BOUNDED stand-in per_request_retention only (weak references to '
            '40 contexts / view instances per configuration after gc; it found the signature cache of the validators '
            'retaining every class-based-view instance and its context - repaired, known_findings.json); in the frame proof of '
            'the chain Method.bind is the abstract contract, the frame modifies=() of the CONCRETE Method.bind / '
            'BaseValidator.validate_method / bind / JsonSchemaValidator.validate_method is proved separately and is part of '
            'this check; response-level independence from the history (incl. state hidden in CPython-level caches) is '
            'replayed natively by the BOUNDED stand-in history_independence (every 1-request history (thorough: 2) + probe '
            'over a corpus on the JSON scalar alphabet vs. the probe on a fresh dispatcher, both dispatchers); user '
            'callables may retain what they like',
}
CLAIMS['C04'] = {
    'text': 'Method.bind, BaseValidator.validate_method and BaseValidator.bind are proved against contracts in which '
            'inspect.Signature.bind IS the specification of a direct call (uninterpreted sig_binds / bound_args over the '
            'CONTENT of the positional and named arguments): the client params go to it unchanged (array -> positional, '
            'object -> named, nothing else); ValidationError (-> -32602, method not run) is raised exactly when that binding '
            'fails; the context name is excluded from the signature the client binds against, so it is not among the bound '
            'arguments, and the context is injected after binding (by name, overriding anything, or as the single positional '
            'argument); the returned callable is functools.partial(the registered function, [context], **exactly the bound '
            'arguments [+ context]).',
    'note': 'assumed: the inspect model (pyvc/engine_inspect.py), BaseValidator.signature (filter loop + lru_cache; contract '
            'assumed), functools.partial(f, **bound.arguments)() == the direct call for signatures of plain parameters - all '
            'three exercised by the bounded stand-in method_binding_vs_direct_call (952 cases, exhaustive over its corpus, '
            'labelled bounded); ViewMethod.bind (context through the view constructor) is not under contract; the '
            'dispatcher proofs (C01-C03) use the abstract MethodBind contract whose uninterpreted binds() this one defines '
            '(refinement argued in DESIGN, not machine-checked). KNOWN FINDING (not repaired): methods with positional-only, '
            '*args or **kwargs parameters do not receive the direct-call arguments (known_findings.json)',
}
CLAIMS['C16'] = {
    'text': 'PURITY part of the property only: 14 per-method extraction steps of the OpenAPI and OpenRPC generators '
            '(_extract_errors (OpenAPI), _extract_tags / _servers / _parameters / _security / _external_docs / _examples / '
            '_description / _deprecated of both) are proved frame-pure: every heap cell they write belongs to an object '
            'allocated by that very call, so neither the method annotations (the lists and dicts the user passed to '
            'annotate()), nor the method, nor the generator object change; what they return is a new object or the '
            'annotation object itself, unwritten.',
    'note': 'NOT covered by any obligation: validity of the documents against the OpenAPI / OpenRPC meta-schemas, $ref '
            'closure, completeness (every method exactly once), absence of cross-method leakage through shared component '
            'maps, determinism of repeated generation - they depend on pydantic / dataclasses internals outside the reach '
            'of contracts here; the BOUNDED stand-in spec_generation_smoke (12 generator x extractor x method-set cases, 3 '
            'generations each: no exception, JSON-encodable, every method once, identical on repetition, annotations '
            'unchanged - labelled bounded) and the native probe replayers/c16.py stand in for them. OpenRPC._extract_errors is not under contract (allocating comprehension); one loop invariant of '
            'OpenAPI._extract_errors (its own defaultdict holds its own lists) is assumed; schema extractors are abstract '
            'user objects (A-user)',
}
CLAIMS['C14'] = {
    'text': 'Schema validator (JsonSchemaValidator.validate_method) and the base validator it builds on, proved: a call is '
            'accepted iff its params bind to the signature without the excluded names (C04 contract) AND the bound arguments '
            'satisfy the schema (jsonschema.validate: assumed, uninterpreted schema_ok over the CONTENT of the instance, the '
            'default and the per-method keyword arguments, per-method ones overriding); otherwise only ValidationError '
            'escapes, carrying exactly one string (JSON-encodable), and nothing is executed; the accepted arguments are '
            'returned unchanged in a new dict; excluded names are not among them.',
    'note': 'NOT covered: PydanticValidator (type validator, coercion): its body is pydantic.create_model + model '
            'instantiation - external semantics; moreover the pydantic installed in this sandbox rejects the call the '
            'validator makes (model_config passed as a field: every validation ends in -32603; its tests are among the 44 '
            'failing baseline tests), so nothing about it can even be replayed natively. jsonschema.validate and '
            'BaseValidator.signature are assumed contracts (the latter with the bounded stand-in of C04)',
}
CLAIMS['C20'] = {
    'text': 'PjRpcMocker._match_request, add, replace and remove proved against the abstract view patches(endpoint, version, '
            'method) = the list stored in the nested maps (tuple keys compared structurally): a patched method is answered by '
            'the FIRST patch of its queue, which then goes to the back of the queue - or is dropped if it is a `once` patch, '
            'the emptied queue being unregistered; the reply carries the request id (any int / str, also 0 and ""), the '
            'configured result / error or the callback value (the last recorded event); the call is recorded: a MagicMock is '
            'stored under calls[endpoint][(version, method)] and was called with exactly the params (positional / named / '
            'single); an unpatched method on a patched endpoint gets -32601 with nothing recorded or changed; add() appends '
            'the new patch last, keeps the earlier ones in order and leaves every other endpoint / method untouched '
            '(whole-view postcondition); replace() puts the new patch at the given position of an existing queue (IndexError '
            'exactly when there is none) and keeps the queue length; an EMPTY queue counts as unpatched (-32601); the only '
            'exceptions that escape a request are those a patch callback raised. Frame: container contents only, no '
            'attribute of any pre-existing object.',
    'note': 'BOUNDED stand-in mocker_histories (16 732 histories of up to 4 operations on the real mocker vs. a reference model of the statement: round-robin, once, ids, recorded call counts, batches, unpatched endpoint; never counted as proved) covers the composition of the per-call contracts and the patched branches of _on_request; under contract for UNPATCHED endpoints only: _on_request (exactly one pass-through call with the same arguments and its answer returned unchanged, or ConnectionRefusedError, as configured; an endpoint with an empty patch map counts as unpatched). remove() un-registers exactly the given method (or endpoint), hands back what it removed, raises KeyError exactly when there is nothing to remove and leaves every other queue untouched. Not under contract: reset(), the patched branches of _on_request (pass-through / refusal of unpatched endpoints, '
            'element-wise batches), start/stop patching. Assumed: the mocking package (MagicMock returns a new callable mock; '
            'calling it only records), callbacks may raise; representation invariant of the mocker (the outer map, the '
            'per-endpoint maps and the call records are distinct objects; stored queues are non-empty lists of well-formed '
            'Match objects) is a precondition - established by add() / replace() for what they store, not proved for remove(); that replace() '
            'keeps the OTHER patches of the queue is not proved (solver timeout on the symbolic-position update)',
}
NOT_CLAIMED = {
    'C17': 'no contract within reach decides it: the documented parameter lists are produced by pydantic (create_model / '
           'model_json_schema) from _build_params_model, whose loop over inspect.Parameter objects needs a parameter-level '
           'inspect model and a dict-building invariant with a quantifier alternation; the installed pydantic is also '
           'incompatible with the validator side of the comparison (see C14). The binding side (which names bind, which are '
           'required) is the assumed inspect model of C04, so the statement would relate two assumed external semantics.',
}

# ---- notes refreshed at the end of the build (they describe what is and is not covered NOW)
CLAIMS['C01']['note'] = (
    'assumed: json.loads/json.dumps contracts; the quantified wire-form clause of BatchResponse.to_json (its comprehension '
    'contract - source and element, generic element - is proved); the lemma that the strict BatchResponse built from an '
    'accepted batch finds no duplicate ids; duplicate-id semantics of _add_ids (bounded stand-in, exhaustive up to 4 ids); '
    'element-wise well-formedness of the ARRAY members follows from the comprehension contracts + the (trusted) filter-map '
    'semantics of comprehensions, not from a quantified postcondition; A-user for methods, middlewares (return UNSET or a '
    'well-formed Response) and error handlers')
CLAIMS['C03']['note'] = (
    'Method.bind is the abstract MethodBind contract here (binds uninterpreted; C04 proves the concrete binding); explicit '
    'postconditions of dispatch(): non-JSON text and loader ValueError -> one -32700, id null, nothing executed; JSON that is '
    'neither a request object nor an array, and an array that is empty or has an invalid element -> one -32600, id null, '
    'nothing executed; duplicate ids / oversize batches -> -32600 are covered through the assumed _add_ids semantics and the '
    'dispatch body, not as separate clauses; user callables follow A-user')
CLAIMS['C05']['note'] = (
    'json.dumps/json.loads are an assumed contract (norm: scalars fixed, tuples->lists, member-wise, length and emptiness '
    'preserving, idempotent); batch to_json: comprehension contracts proved (every element of the array is the wire form of '
    'the element at the same position), the quantified array clause assumed; the batch round-trip lemma is not stated')
CLAIMS['C06']['note'] = (
    'assumes the Python value model (DESIGN 3.1), default message classes, user error subclasses not overriding '
    '__init__/from_json; batch: from_json / append / extend / __init__ are under contract (atomicity, only '
    'DeserializationError / IdentityError); that IdentityError is raised EXACTLY for duplicate ids is assumed (dup_in '
    'uninterpreted) + bounded stand-in')
CLAIMS['C07']['note'] = (
    'under contract: raw _send (both clients), call(), notify(), Request/BatchRequest.is_notification, to_json wire forms; '
    'the decorator stack retried(traced(raw)) is an assumed contract whose SHAPE is proved (lemma_send_stack_order); NOT '
    'under contract: proxy / batch notations (Batch.__call__, __getitem__), id generators, the client-dispatcher '
    'composition lemma; json.dumps/loads, the transport and the validator are assumed / abstract')
CLAIMS['C08']['note'] = (
    'batch matching (BaseBatch._relate) is covered by a BOUNDED stand-in only (20 800 small batches, exhaustive over its '
    'grid; its loop invariant needs a quantifier alternation) - labelled bounded, not proved; `is` on scalars is modelled '
    'as value equality, so an `!=` -> `is not` rewrite on ids is not distinguished')
CLAIMS['C09']['note'] = (
    'Backoff.__call__ is an assumed contract (fresh iterator over delays_of(backoff), numbers): the three generators use '
    'yield, float exponentiation and a Fibonacci recurrence - outside the VC generator; their closed forms are compared '
    'natively by the bounded stand-in backoff_closed_forms (2 790 cases); time.sleep/asyncio.sleep only record; '
    '`except tuple(classes)` is the uninterpreted exc_listed')
CLAIMS['C10']['note'] = (
    'the quantifier over SCHEDULES is not enumerated by this technique: the claim is reduced to (i) the per-element handler '
    'contract, (ii) the PROVED frame of the handler chain (C13: nothing pre-existing is written), (iii) the assumed contract '
    'of asyncio.gather (results in argument order); await-erasure (single-task reasoning); the non-interference meta-theorem '
    'connecting these to every interleaving is a paper argument')
CLAIMS['C11']['note'] = (
    'await-erasure (single-task reasoning); paired under ONE contract: _handle_rpc_method, _handle_rpc_request, '
    '_handle_request, dispatch, __init__ (middleware chain), traced wrapper, retried wrapper, retry/retry_async wrapped, raw '
    '_send, call, notify; Batch / AsyncBatch are not paired under contract')
CLAIMS['C12']['text'] = (
    'Error handlers: loop invariant over it.chain(generic handlers, handlers for the RAISED error code): every iteration '
    'appends exactly one ghost event - the call of the k-th handler with (request, context, error returned by the previous '
    'handler) - and the error sent is the last returned one; handlers never run on success (trace equality). Middlewares: the '
    'constructors of both dispatchers are proved to build the request handler as partial(m[0], handler=partial(m[1], ... '
    'partial(m[n-1], handler=self._handle_request))) - first declared outermost, each exactly once (inductive chain predicate, '
    'loop invariant over reversed(middlewares)); dispatch() hands every single request and every batch element to exactly that '
    'handler (call-site protocol obligation + comprehension contract). One contract per sync/async pair.')
CLAIMS['C12']['note'] = (
    'that a user middleware calls its `handler` argument exactly once is user behaviour (A-user), so "runs once" is proved for '
    'the library part: one entry into the chain per request; handlers are assumed not to raise and to return well-formed '
    'protocol errors; is_chain is an uninterpreted predicate with trusted definitional instances (define(...))')
CLAIMS['C19']['note'] = (
    'tracers are assumed not to raise and _tracers to be a list (A-user); composition with the retry loop (every attempt '
    'traced): the stack shape retried(traced(raw _send)) is proved by lemma_send_stack_order (decorator expressions of the '
    'real class bodies), the per-layer behaviour by the wrapper contracts; their composition is stated, not machine-checked')
CLAIMS['C07']['note'] += ('; bounded stand-ins (labelled bounded, not proof): client_server_loopback (58 cases: every notation of '
                          'both clients wired to the real dispatcher vs. the direct call), id_generators; KNOWN FINDING: '
                          'generators.uuid ids cannot be serialised (known_findings.json)')
CLAIMS['C10']['note'] += ('; bounded stand-in async_batch_schedules: 96 cases - every release order of 4 suspended handlers x '
                          'concurrent on/off x a failing element, on the real AsyncDispatcher (labelled bounded)')
CLAIMS['C11']['note'] += ('; bounded stand-in sync_async_differential: the two real dispatchers on a 30-text corpus and the two '
                          'real clients on 8 scripted exchanges incl. tracer events (labelled bounded)')
CLAIMS['C08']['note'] += ('; BatchResponse.from_json (acceptance, element error classes) and BatchResponse.result (only '
                          'JsonRpcError escapes - the batch error or the error object of a response; a normal return copies the '
                          'results position by position) are under contract; that result raises EXACTLY when something failed is '
                          'not proved; the call-order of the responses after matching is established by BaseBatch._relate '
                          '(bounded stand-in)')
