"""
Spec functions for JSON-RPC 2.0 message structure — written from the PROPERTY STATEMENTS
(C01, C05, C06), not from the code.
"""
from spec.prims import is_absent, member


def id_ok(v):
    """an id that is a string, a number or null; of the numbers pjrpc admits integers only"""
    return v is None or isinstance(v, str) or (isinstance(v, int) and not isinstance(v, bool))


def version_ok(j):
    v = member(j, 'jsonrpc')
    return isinstance(v, str) and v == '2.0'


def valid_request_obj(j):
    """C06: protocol version present and '2.0'; method a string; params absent, array or object; id ok"""
    if not isinstance(j, dict):
        return False
    if not version_ok(j):
        return False
    if not isinstance(member(j, 'method'), str):
        return False
    p = member(j, 'params')
    if not (is_absent(p) or isinstance(p, (list, dict))):
        return False
    i = member(j, 'id')
    return is_absent(i) or id_ok(i)


def valid_error_obj(j):
    """C06: an error carries an integer code and a string message (optional data)"""
    if not isinstance(j, dict):
        return False
    c = member(j, 'code')
    if not (isinstance(c, int) and not isinstance(c, bool)):
        return False
    return isinstance(member(j, 'message'), str)


def valid_response_obj(j):
    """C06: version ok; id ok; exactly one of result / error (by presence); error well formed"""
    if not isinstance(j, dict):
        return False
    if not version_ok(j):
        return False
    i = member(j, 'id')
    if not (is_absent(i) or id_ok(i)):
        return False
    r = member(j, 'result')
    e = member(j, 'error')
    if is_absent(r) and is_absent(e):
        return False
    if not is_absent(r) and not is_absent(e):
        return False
    if not is_absent(e):
        return valid_error_obj(e)
    return True
