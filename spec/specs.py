"""Spec functions for the schema generators (C16: purity of the per-method extraction steps)."""
from pjrpc.common.common import UNSET
from pjrpc.common.exceptions import JsonRpcError


def error_classes(xs):
    return isinstance(xs, list) and all(isinstance(e, type) and issubclass(e, JsonRpcError) for e in xs)


def errors_result_ok(r):
    """an extractor's extract_errors answer: UNSET / None / a list of error classes"""
    return r is UNSET or r is None or error_classes(r)


def meta_ok(f, key):
    """shape of the metadata the annotate() decorators attach to a user function: f.__pjrpc_meta__ (if present) is a
    dict whose entry `key` (if present) is a dict of annotations"""
    if not hasattr(f, '__pjrpc_meta__'):
        return True
    m = f.__pjrpc_meta__
    if not isinstance(m, dict):
        return False
    return key not in m or isinstance(m[key], dict)
