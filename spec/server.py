"""Spec functions for the server side (dispatcher), from the statements of C01-C03, C12, C15."""
from spec.prims import is_absent, member


def registered(dispatcher, name):
    """the method registered under exactly this name, or None"""
    m = member(dispatcher._registry._registry, name)
    return None if is_absent(m) else m
