"""Spec functions for the server side (dispatcher), from the statements of C01-C03, C12, C15."""
from spec.prims import (class_is, ev_args, ev_callee, ev_kind, ev_outcome, ev_value, is_absent, is_json, member, same, tlen,
                        uf, ufv)
from spec.jsonrpc import id_ok

from pjrpc.common.common import UNSET
from pjrpc.common.exceptions import (InternalError, InvalidParamsError, JsonRpcError, MethodNotFoundError,
                                     ServerError)
from pjrpc.common.v20 import BatchRequest, BatchResponse, Request, Response


def registered(dispatcher, name):
    """the method registered under exactly this name, or None"""
    m = member(dispatcher._registry._registry, name)
    return None if is_absent(m) else m


def config_ok(d):
    """A-classes: the dispatcher is configured with the library's own message classes"""
    return (d._response_class is Response and d._request_class is Request
            and d._batch_request is BatchRequest and d._batch_response is BatchResponse)


def request_ok(req):
    """what Request.from_json guarantees about an accepted request"""
    return (isinstance(req._method, str) and id_ok(req._id)
            and (req._params is None or isinstance(req._params, (list, dict))))


def ran_once(n0, m):
    """the events since event number n0 are exactly one call of the callable bound to m (and, when that
    call returned a coroutine, the awaiting of that coroutine)"""
    n = tlen() - n0
    if n < 1 or n > 2:
        return False
    if not (ev_kind(n0) == 'call' and same(ufv('bound_of', ev_callee(n0)), m)):
        return False
    if n == 2:
        return ev_outcome(n0) == 'ret' and ev_kind(n0 + 1) == 'await' and same(ev_callee(n0 + 1), ev_value(n0))
    return True


def method_returned(d, name, params, n0, value):
    """C02/C03: a normal outcome means: the name is registered, the params bind, the method ran exactly
    once and `value` is what it returned (unchanged)"""
    m = registered(d, name)
    return (m is not None and uf('binds', m, params) and ran_once(n0, m)
            and ev_outcome(tlen() - 1) == 'ret' and same(ev_value(tlen() - 1), value))


def method_failed(d, name, params, n0, exc):
    """C03: the protocol error produced for each failure class"""
    if not (isinstance(exc.code, int) and not isinstance(exc.code, bool) and isinstance(exc.message, str)):
        return False
    m = registered(d, name)
    if m is None:
        # unknown name: -32601, nothing executed (C15)
        return class_is(exc, MethodNotFoundError) and tlen() == n0
    if not uf('binds', m, params):
        # parameters do not bind / validate: -32602 without running the method
        return class_is(exc, InvalidParamsError) and tlen() == n0
    if not (ran_once(n0, m) and ev_outcome(tlen() - 1) == 'raise'):
        return False
    x = ev_value(tlen() - 1)
    if isinstance(x, JsonRpcError):
        # a protocol error raised by the method reaches the caller as the very same object
        return same(exc, x)
    # any other exception: the constant ServerError() - nothing of x can leak into a constant
    return (class_is(exc, ServerError) and same(exc.code, -32000) and same(exc.message, 'Server error')
            and exc.data is UNSET)


def handlers_for(d, key):
    """the error handlers registered under key (None = generic), as a sequence"""
    hs = member(d._error_handlers, key)
    return () if is_absent(hs) else hs


def handler_event_ok(i, h, request, context, prev):
    """C12: event number i is a call of handler h with the request, the context and the error returned
    by the previous handler, and it returned (handlers do not raise)"""
    a = ev_args(i)
    return (ev_kind(i) == 'call' and same(ev_callee(i), h) and ev_outcome(i) == 'ret'
            and len(a) == 3 and same(a[0], request) and same(a[1], context) and same(a[2], prev))


def wf_error_obj(e):
    """C01: error = integer code + string message, optional data"""
    c = member(e, 'code')
    return (isinstance(e, dict) and isinstance(c, int) and not isinstance(c, bool)
            and isinstance(member(e, 'message'), str))


def wf_response_obj(d):
    """C01: a response object carries jsonrpc "2.0", an id that is a string, a number or null, and exactly one
    of result / error"""
    if not isinstance(d, dict):
        return False
    if not (member(d, 'jsonrpc') == '2.0' and not is_absent(member(d, 'id')) and id_ok(member(d, 'id'))):
        return False
    r = member(d, 'result')
    e = member(d, 'error')
    if is_absent(e):
        return not is_absent(r)
    return is_absent(r) and wf_error_obj(e)


def code_of(d):
    e = member(d, 'error')
    return 0 if is_absent(e) else member(e, 'code')
