"""Wire forms (C05), written from the property statement; shared by the to_json contracts and the client contracts."""
from spec.prims import is_absent, member, same


def request_wire(doc, req):
    """doc is exactly the wire form of request req: jsonrpc "2.0"; method; an id member iff not a
    notification; a params member iff it has parameters; nothing else"""
    return (
        isinstance(doc, dict)
        and member(doc, 'jsonrpc') == '2.0' and same(member(doc, 'method'), req._method)
        and (same(member(doc, 'id'), req._id) if req._id is not None else is_absent(member(doc, 'id')))
        and (same(member(doc, 'params'), req._params) if req._params else is_absent(member(doc, 'params')))
        and len(doc) == 2 + (1 if req._id is not None else 0) + (1 if req._params else 0)
    )
