"""Wire forms (C05), written from the property statement; shared by the to_json contracts and the client contracts."""
from spec.prims import is_absent, member, same

from pjrpc.common.common import UNSET


def request_wire(doc, req):
    """doc is exactly the wire form of request req: jsonrpc "2.0"; method; an id member iff not a
    notification; a params member iff it has parameters; nothing else"""
    return (
        isinstance(doc, dict)
        and member(doc, 'jsonrpc') == '2.0' and same(member(doc, 'method'), req._method)
        and (same(member(doc, 'id'), req._id) if req._id is not None else is_absent(member(doc, 'id')))
        and (same(member(doc, 'params'), req._params) if req._params else is_absent(member(doc, 'params')))
        and len(doc) == 2 + (1 if req._id is not None else 0) + (1 if req._params else 0)
    )


def error_wire(doc, err):
    """doc is exactly the wire form of error err: code, message, data iff set"""
    d = member(doc, 'data')
    return (
        isinstance(doc, dict)
        and same(member(doc, 'code'), err.code) and same(member(doc, 'message'), err.message)
        and (same(d, err.data) if err.data is not UNSET else is_absent(d))
        and len(doc) == 2 + (0 if err.data is UNSET else 1)
    )


def response_wire(doc, resp):
    """doc is exactly the wire form of response resp: jsonrpc "2.0", id (null allowed), exactly one of result /
    error"""
    if not (isinstance(doc, dict) and member(doc, 'jsonrpc') == '2.0' and same(member(doc, 'id'), resp._id)
            and len(doc) == 3):
        return False
    if resp._error is UNSET:
        return same(member(doc, 'result'), resp._result) and is_absent(member(doc, 'error'))
    return is_absent(member(doc, 'result')) and error_wire(member(doc, 'error'), resp._error)
