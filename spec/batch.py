"""Spec functions for batches (C02, C06, C08), from the property statements."""
from spec.prims import dup_in, is_absent, member          # noqa: dup_in is an engine primitive
