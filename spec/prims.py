"""
Spec primitives.  The verifier gives each of these a built-in symbolic meaning (pyvc/verify.py,
prim_*); the bodies below are the executable native meaning used by the run-time monitor and the
replay drivers.
"""
import math

_OLD = None


def old(x):
    """value of the expression in the pre-state (the monitor evaluates pre-state copies itself)"""
    return x


def implies(a, b):
    return (not a) or bool(b)


def is_json(v, _depth=0):
    if v is None or isinstance(v, (bool, int, str)):
        return True
    if isinstance(v, float):
        return True
    if _depth > 64:
        return False
    if isinstance(v, list):
        return all(is_json(x, _depth + 1) for x in v)
    if isinstance(v, dict):
        return all(isinstance(k, str) and is_json(x, _depth + 1) for k, x in v.items())
    return False


def same(a, b):
    """identity on objects, value-and-type equality on scalars"""
    if a is b:
        return True
    if isinstance(a, (bool, int, float, str)) and type(a) is type(b):
        return a == b
    return False


def is_fresh(x):
    return True


def class_is(obj, cls):
    return type(obj) is cls


class _Absent:
    def __repr__(self):
        return 'ABSENT'


ABSENT = _Absent()


def member(d, k):
    return d.get(k, ABSENT) if isinstance(d, dict) else ABSENT


def is_absent(v):
    return v is ABSENT


def has_type(v, spec):
    return True


def str_of(v):
    return str(v)


def uf(name, *args):
    """uninterpreted predicate: natively resolved by the replay driver (registered implementations)"""
    return _UF[name](*args)


def ufv(name, *args):
    return _UF[name](*args)


_UF = {}
_TRACE = []


def trace():
    return tuple(_TRACE)


# ghost call trace (natively maintained by the replay driver's stubs)
def tlen():
    return len(_TRACE)


def ev_kind(i):
    return _TRACE[i][0]


def ev_callee(i):
    return _TRACE[i][1]


def ev_args(i):
    return _TRACE[i][2]


def ev_kwargs(i):
    return _TRACE[i][3]


def ev_outcome(i):
    return _TRACE[i][4]


def ev_value(i):
    return _TRACE[i][5]


def bound_method(obj, name):
    return getattr(obj, name)


def at_entry(x):
    return x


def seq_concat(a, b):
    return tuple(a) + tuple(b)


def seq_same(a, b):
    a, b = tuple(a), tuple(b)
    return len(a) == len(b) and all(x is y for x, y in zip(a, b))


def assume(cond):
    if not cond:
        raise AssumptionNotMet()


class AssumptionNotMet(Exception):
    pass


def json_roundtrip(v):
    import json
    return json.loads(json.dumps(v))


def iter_source(it):
    return getattr(it, '_src', None)


def iter_pos(it):
    return getattr(it, '_pos', None)


def exc_listed(classes, exc):
    return bool(classes) and isinstance(exc, tuple(classes))


def dup_in(existing, ids):
    """some non-null id of the sequence duplicates an earlier one or a member of the set `existing`"""
    seen = set(existing)
    for i in ids:
        if i is None:
            continue
        if i in seen:
            return True
        seen.add(i)
    return False


def contents_unchanged(x):
    return True


def contents_as_old(x):
    return True


def ufvt(name, spec, *args):
    return _UF[name](*args)


def gather_calls():
    return 0


def key_pos(d, k):
    """position of key k in the iteration order of d (-1 when absent)"""
    ks = list(d)
    return ks.index(k) if k in d else -1


def dict_is_update(d, k, v):
    return d.get(k) is v


def dict_same_except(d, k):
    return True


def method_value(qualname):
    """the value a class attribute is bound to after its decorators ran (evaluated on the real AST)"""
    raise NotImplementedError('spec primitive')


def closure_func(f):
    """qualified name of the function object f (a closure produced by a decorator, or a plain function)"""
    raise NotImplementedError('spec primitive')


def closure_var(f, name):
    """value of the free variable `name` captured by the closure f"""
    raise NotImplementedError('spec primitive')


# ---- inspect / functools vocabulary (assumed model: pyvc/engine_inspect.py)
def sig_of(f):
    import inspect
    return inspect.signature(f)


def filtered_sig(validator, f, excluded):
    return validator.signature(f, tuple(excluded))


def sig_binds(sig, params):
    try:
        sig.bind(*(params if isinstance(params, (list, tuple)) else ()), **(params if isinstance(params, dict) else {}))
        return True
    except TypeError:
        return False


def bound_arguments(sig, params):
    return dict(sig.bind(*(params if isinstance(params, (list, tuple)) else ()),
                         **(params if isinstance(params, dict) else {})).arguments)


def is_param(sig, name):
    return name in sig.parameters


def sig_plain(sig):
    import inspect
    return all(p.kind in (inspect.Parameter.POSITIONAL_OR_KEYWORD, inspect.Parameter.KEYWORD_ONLY)
               for p in sig.parameters.values())


def is_partial(p):
    import functools
    return isinstance(p, functools.partial)


def partial_func(p):
    return p.func


def partial_args(p):
    return tuple(p.args)


def partial_kwargs(p):
    return dict(p.keywords)


def dict_eq(a, b):
    return dict(a) == dict(b)


def dict_eq_except(a, b, k):
    return {x: v for x, v in a.items() if x != k} == {x: v for x, v in b.items() if x != k}


def schema_ok(instance, defaults, kwargs):
    import jsonschema
    try:
        jsonschema.validate(instance, **{**defaults, **kwargs})
        return True
    except jsonschema.ValidationError:
        return False


def define(cond):
    """an instance of the definition of an uninterpreted spec predicate (trusted)"""
    return True
