"""A-user: what the properties assume about user code."""
from pjrpc.common.exceptions import JsonRpcError


def error_ok(e):
    """a protocol error object carries an integer (non-bool) code and a string message"""
    return isinstance(e.code, int) and not isinstance(e.code, bool) and isinstance(e.message, str)


def raised_ok(e):
    """whatever a user method raises: if it is a protocol error it is a well-formed one"""
    if isinstance(e, JsonRpcError):
        return error_ok(e)
    return True
