"""A-user: what the properties assume about user code."""
from pjrpc.common.common import UNSET, UnsetType
from pjrpc.common.exceptions import JsonRpcError


def error_ok(e):
    """a protocol error object carries an integer (non-bool) code and a string message"""
    return isinstance(e.code, int) and not isinstance(e.code, bool) and isinstance(e.message, str)


def raised_ok(e):
    """whatever a user method raises: if it is a protocol error it is a well-formed one"""
    if isinstance(e, JsonRpcError):
        return error_ok(e)
    return True


def handler_result_ok(r):
    """A-user: a response produced by a middleware is a well-formed one (exactly one of result / error, a
    protocol error object as error, a valid id)"""
    from_unset = isinstance(r, UnsetType)
    if from_unset:
        return True
    return (((r._result is UNSET) != (r._error is UNSET))
            and (r._error is UNSET or (isinstance(r._error, JsonRpcError) and error_ok(r._error)))
            and (r._id is None or isinstance(r._id, str) or (isinstance(r._id, int) and not isinstance(r._id, bool))))
