"""Spec functions of the HTTP integrations (C18): ONE statement of the relay behaviour, used by the contracts
of all three integrations - 'equivalent replies from every integration' is then a corollary."""
from spec.prims import implies, ev_args, ev_callee, ev_kind, ev_kwargs, ev_value, member, same, tlen

REQUEST_TYPES = ('application/json', 'application/json-rpc', 'application/jsonrequest')


def dispatch_result_ok(r):
    """shape of a dispatcher result (proved as C01): nothing, or (text, codes)"""
    return r is None or (isinstance(r, tuple) and len(r) == 2 and isinstance(r[0], str) and isinstance(r[1], tuple))


def request_wf(request):
    """ASSUMED framework contract of a request object (werkzeug / flask; aiohttp's content_type IS the media type):
    mimetype is the media type of the raw Content-Type header - so the raw header equals a documented type only
    when it is that media type without parameters; is_json is werkzeug's +json test"""
    m = request.mimetype
    return (implies(request.content_type in REQUEST_TYPES, m == request.content_type)
            and implies(request.content_type is None, m == '')
            and request.is_json == (m == 'application/json' or m.endswith('+json')))


def accepted(media_type):
    """the documented JSON-RPC request media types (parameters such as charset are not part of a media type)"""
    return media_type in REQUEST_TYPES


def reply_ok(result, dispatched, status):
    """exactly the dispatcher's text, the JSON content type and the chosen status; an empty 200 when the
    dispatcher returned nothing"""
    if dispatched is None:
        return result.status == 200 and result.body == ''
    return (same(result.body, dispatched[0]) and result.content_type == 'application/json'
            and same(result.status, status))


def relayed(b, read_kind, request, dispatcher, context, status_fn, result):
    """from trace position b: the body is read as text, the dispatcher is called exactly once with that very text
    (and the request as context where the integration passes one), then - only if it answered - the status
    function (if configured) is asked once with the dispatcher's error codes; `result` is the reply built from
    these and nothing else happened."""
    if not (tlen() >= b + 2 and ev_kind(b) == read_kind and same(ev_callee(b), request)
            and ev_kind(b + 1) == 'call:dispatch' and same(ev_callee(b + 1), dispatcher)
            and len(ev_args(b + 1)) == 1 and same(ev_args(b + 1)[0], ev_value(b))
            and dispatch_result_ok(ev_value(b + 1))):
        return False
    if context is not None and not same(member(ev_kwargs(b + 1), 'context'), context):
        return False
    d = ev_value(b + 1)
    if d is None:
        return tlen() == b + 2 and reply_ok(result, d, 200)
    if status_fn is None:
        return tlen() == b + 2 and reply_ok(result, d, 200)
    return (tlen() == b + 3 and ev_kind(b + 2) == 'call' and same(ev_callee(b + 2), status_fn)
            and len(ev_args(b + 2)) == 1 and same(ev_args(b + 2)[0], d[1]) and reply_ok(result, d, ev_value(b + 2)))
